/-
  The table construction algorithms of `Model/TableInit.lean` (`initialize_exp_log`,
  `initialize_mul16`, `initialize_log_walsh`, `initialize_skew` of src/engine/tables.rs) produce
  the specified tables of `Model/Tables.lean`.

  All proofs are structural inductions over the recursions with the counts as variables; the
  kernel never evaluates a table.
-/
import RSVerif.Model.TableInit
import RSVerif.Proofs.TableSpec
import RSVerif.Proofs.FftEval
import RSVerif.Proofs.Walsh

namespace RS

/-! ## 0. generic helpers -/

theorem toNat_ofNat_lt {c : Nat} (h : c < 65536) : (BitVec.ofNat 16 c).toNat = c := by
  rw [BitVec.toNat_ofNat]; exact Nat.mod_eq_of_lt h

theorem ofNat_toNat_sym (x : Sym) : BitVec.ofNat 16 x.toNat = x :=
  BitVec.eq_of_toNat_eq (toNat_ofNat_lt x.isLt)

theorem sym_toNat_lt (x : Sym) : x.toNat < 65536 := x.isLt

theorem natXor_toNat (x y : Sym) : Nat.xor x.toNat y.toNat = (x ^^^ y).toNat :=
  (BitVec.toNat_xor x y).symm

theorem getD_ofFn {n : Nat} (f : Fin n → Nat) (k : Nat) (h : k < n) :
    (Array.ofFn f).getD k 0 = f ⟨k, h⟩ := by
  simp [Array.getD, h]

theorem getD_replicate_zero (n k : Nat) : (Array.replicate n 0).getD k 0 = 0 := by
  by_cases h : k < n <;> simp [Array.getD, h]

/-- a fold of `setIfInBounds` never changes the size -/
theorem foldl_set_size {β : Type} (idx : Array Nat → β → Nat) (val : Array Nat → β → Nat) :
    ∀ (l : List β) (a : Array Nat),
      (l.foldl (fun a j => a.setIfInBounds (idx a j) (val a j)) a).size = a.size
  | [], _ => rfl
  | j :: l, a => by
    rw [List.foldl_cons, foldl_set_size idx val l, Array.size_setIfInBounds]

/-! ## A.1 the LFSR loop -/

theorem xor_high_bit {r : Nat} (hr : r < 65536) : Nat.xor (65536 + r) 0x1002D = Nat.xor r 0x2D := by
  have h1 : 65536 + r = 65536 ^^^ r :=
    add_eq_xor_of_dvdF (j := 16) (D := 65536) (Nat.dvd_refl _) hr
  have h2 : (0x1002D : Nat) = 65536 ^^^ 0x2D := by decide
  show (65536 + r) ^^^ 0x1002D = r ^^^ 0x2D
  rw [h1, h2, Nat.xor_assoc, ← Nat.xor_assoc r, Nat.xor_comm r 65536, Nat.xor_assoc 65536 r,
    ← Nat.xor_assoc 65536 65536, Nat.xor_self, Nat.zero_xor]

theorem lfsrStep_eq {s : Nat} (hs : s < 65536) :
    lfsrStep s = (mulX (BitVec.ofNat 16 s)).toNat := by
  unfold lfsrStep mulX polyLow
  have hmsb : (BitVec.ofNat 16 s).msb = decide (32768 ≤ s) := by
    rw [BitVec.msb_eq_decide, toNat_ofNat_lt hs]
  have hshl : ((BitVec.ofNat 16 s) <<< 1).toNat = (s * 2) % 65536 := by
    rw [BitVec.toNat_shiftLeft, toNat_ofNat_lt hs, Nat.shiftLeft_eq]
  rw [hmsb]
  by_cases h : 32768 ≤ s
  · have h1 : s * 2 ≥ 65536 := by omega
    simp only [h, decide_true, if_true]
    rw [if_pos h1, BitVec.toNat_xor, hshl]
    have e : s * 2 = 65536 + (s * 2 - 65536) := by omega
    have e2 : s * 2 % 65536 = s * 2 - 65536 := by omega
    rw [e2]
    conv_lhs => rw [e]
    exact xor_high_bit (by omega)
  · have h1 : ¬ s * 2 ≥ 65536 := by omega
    simp only [h, decide_false, Bool.false_eq_true, if_false]
    rw [if_neg h1, hshl]
    omega

theorem gexp_eq_phiInv_xpow (k : Nat) (hk : k < 2 ^ 64) : gexp k = phiInv (xpow k) :=
  GF16.gpow_gen k hk

theorem phi_gexp (k : Nat) (hk : k < 2 ^ 64) : phi (gexp k) = xpow k := by
  rw [gexp_eq_phiInv_xpow k hk, phi_phiInv]

theorem xpow_injOn {a b : Nat} (ha : a < 65535) (hb : b < 65535) (h : xpow a = xpow b) : a = b := by
  apply gexp_injOn ha hb
  rw [gexp_eq_phiInv_xpow a (by omega), gexp_eq_phiInv_xpow b (by omega), h]

theorem xpow_ne_zero (k : Nat) (hk : k < 2 ^ 64) : xpow k ≠ 0 := by
  intro h
  apply gexp_ne_zero k hk
  rw [gexp_eq_phiInv_xpow k hk, h]
  exact phiInv_zero

/-- every non-zero polynomial-representation element is a power of `x` -/
theorem exists_xpow (p : Sym) (hp : p ≠ 0) : ∃ k, k < 65535 ∧ xpow k = p := by
  have hq : phiInv p ≠ 0 := by
    intro h
    apply hp
    have := congrArg phi h
    rw [phi_phiInv, phi_zero] at this
    exact this
  obtain ⟨k, hk, h⟩ := exists_log (phiInv p) hq
  refine ⟨k, hk, ?_⟩
  rw [gexp_eq_phiInv_xpow k (by omega)] at h
  exact GF16.phiInv_injective h

/-- invariant of the LFSR loop once the exponents `k < K` have been written -/
def LfsrInv (K : Nat) (a : Array Nat) : Prop :=
  a.size = 65536 ∧ ∀ p : Sym,
    (∀ k, k < K → xpow k = p → a.getD p.toNat 0 = k) ∧
    ((∀ k, k < K → xpow k ≠ p) → a.getD p.toNat 0 = 0)

theorem LfsrInv.step {K : Nat} {a : Array Nat} (hK : K < 65535) (h : LfsrInv K a) :
    LfsrInv (K + 1) (a.setIfInBounds (xpow K).toNat K) := by
  obtain ⟨hs, hx⟩ := h
  refine ⟨by rw [Array.size_setIfInBounds, hs], fun x => ?_⟩
  have hlt : x.toNat < a.size := by rw [hs]; exact x.isLt
  rw [getD_setIfInBounds]
  by_cases hx' : xpow K = x
  · have hc : (xpow K).toNat = x.toNat ∧ x.toNat < a.size := ⟨by rw [hx'], hlt⟩
    rw [if_pos hc]
    refine ⟨fun k hk hk' => ?_, fun hn => absurd hx' (hn K (by omega))⟩
    exact (xpow_injOn (by omega) hK (hk'.trans hx'.symm)).symm
  · have hc : ¬((xpow K).toNat = x.toNat ∧ x.toNat < a.size) :=
      fun hc => hx' (BitVec.eq_of_toNat_eq hc.1)
    rw [if_neg hc]
    refine ⟨fun k hk hk' => ?_, fun hn => (hx x).2 (fun k hk => hn k (by omega))⟩
    have : k < K := by
      rcases Nat.lt_succ_iff_lt_or_eq.1 hk with h | h
      · exact h
      · subst h; exact absurd hk' hx'
    exact (hx x).1 k this hk'

theorem lfsrFill_succ (n i s : Nat) (a : Array Nat) :
    lfsrFill (n + 1) i s a = lfsrFill n (i + 1) (lfsrStep s) (a.setIfInBounds s i) := rfl

theorem lfsrFill_inv (n : Nat) : ∀ (K s : Nat) (a : Array Nat), K + n ≤ 65535 →
    s = (xpow K).toNat → LfsrInv K a → LfsrInv (K + n) (lfsrFill n K s a) := by
  induction n with
  | zero => intro K s a _ _ h; exact h
  | succ n ih =>
    intro K s a hb hs h
    subst hs
    have h1 : LfsrInv (K + 1) _ := h.step (Nat.lt_of_lt_of_le (by omega) hb)
    have hs' : lfsrStep (xpow K).toNat = (xpow (K + 1)).toNat := by
      rw [lfsrStep_eq (sym_toNat_lt _), ofNat_toNat_sym, xpow_succ]
    have h2 := ih (K + 1) _ _ (by omega) hs' h1
    rw [show K + 1 + n = K + (n + 1) by omega] at h2
    rw [lfsrFill_succ]
    exact h2

theorem lfsrInv_init : LfsrInv 0 (Array.replicate 65536 0) :=
  ⟨Array.size_replicate, fun _ =>
    ⟨fun k hk => absurd hk (Nat.not_lt_zero k), fun _ => getD_replicate_zero _ _⟩⟩

/-- A.1: after the LFSR loop the array holds `i` at index `x^i` (`i < 65535`), `0` elsewhere -/
theorem lfsrFill_spec : LfsrInv 65535 (lfsrFill 65535 0 1 (Array.replicate 65536 0)) := by
  have := lfsrFill_inv 65535 0 1 _ (by decide) (by decide) lfsrInv_init
  rw [Nat.zero_add] at this
  exact this

theorem lfsrFill_get {E : Array Nat} (hE : LfsrInv 65535 E) (i : Nat) (hi : i < 65535) :
    E.getD (xpow i).toNat 0 = i := (hE.2 (xpow i)).1 i hi rfl

theorem lfsrFill_get_zero {E : Array Nat} (hE : LfsrInv 65535 E) : E.getD 0 0 = 0 :=
  (hE.2 0#16).2 (fun k hk => xpow_ne_zero k (by omega))

/-- the polynomial-representation log table `exp0` is `logArr ∘ phiInv` -/
theorem exp0_spec {E : Array Nat} (hE : LfsrInv 65535 E) (p : Sym) :
    (E.setIfInBounds 0 65535).getD p.toNat 0 = logArr.getD (phiInv p).toNat 0 := by
  rw [getD_setIfInBounds]
  by_cases hp : p = 0
  · subst hp
    rw [if_pos ⟨rfl, by rw [hE.1]; decide⟩, phiInv_zero]
    exact logArr_zero.symm
  · rw [if_neg (fun h => hp (BitVec.eq_of_toNat_eq h.1.symm))]
    obtain ⟨k, hk, rfl⟩ := exists_xpow p hp
    rw [lfsrFill_get hE k hk, ← gexp_eq_phiInv_xpow k (by omega), logArr_gexp k hk]

/-! ## A.2 the Cantor conversion loop -/

/-- `a[j + w] := f a[j]` for `j < m ≤ w` -/
theorem shiftFill_getD (f : Nat → Nat) (w : Nat) : ∀ (m : Nat) (a : Array Nat), m ≤ w → ∀ k,
    ((List.range m).foldl (fun a j => a.setIfInBounds (j + w) (f (a.getD j 0))) a).getD k 0 =
      if w ≤ k ∧ k < w + m ∧ k < a.size then f (a.getD (k - w) 0) else a.getD k 0 := by
  intro m
  induction m with
  | zero =>
    intro a _ k
    rw [if_neg (by omega)]; rfl
  | succ m ih =>
    intro a hm k
    have hm' : ¬ (w ≤ m ∧ m < w + m ∧ m < a.size) := by omega
    have e1 := ih a (by omega) m
    rw [if_neg hm'] at e1
    rw [List.range_succ, List.foldl_append, List.foldl_cons, List.foldl_nil, getD_setIfInBounds,
      foldl_set_size (fun _ j => j + w) (fun a j => f (a.getD j 0)), e1, ih a (by omega) k]
    by_cases h1 : m + w = k ∧ k < a.size
    · rw [if_pos h1, if_pos ⟨by omega, by omega, h1.2⟩]
      congr 2; omega
    · rw [if_neg h1]
      by_cases h2 : w ≤ k ∧ k < w + m ∧ k < a.size
      · rw [if_pos h2, if_pos ⟨h2.1, by omega, h2.2.2⟩]
      · rw [if_neg h2, if_neg (by omega)]

theorem phi_basis_fin : ∀ i : Fin 16,
    cantorBasis.getD i.val 0#16 = phi (BitVec.ofNat 16 (2 ^ i.val)) := by decide

/-- invariant of the Cantor loop: the first `2^i` entries are converted -/
def CantorInv (i : Nat) (a : Array Nat) : Prop :=
  a.size = 65536 ∧ ∀ c, c < 2 ^ i → a.getD c 0 = (phi (BitVec.ofNat 16 c)).toNat

theorem cantorFill_succ (n i : Nat) (a : Array Nat) :
    cantorFill (n + 1) i a = cantorFill n (i + 1)
      ((List.range (2 ^ i)).foldl (fun a j => a.setIfInBounds (j + 2 ^ i)
        (Nat.xor (a.getD j 0) (cantorBasis.getD i 0#16).toNat)) a) := rfl

theorem CantorInv.step {i : Nat} {a : Array Nat} (hi : i < 16) (h : CantorInv i a) :
    CantorInv (i + 1) ((List.range (2 ^ i)).foldl (fun a j => a.setIfInBounds (j + 2 ^ i)
        (Nat.xor (a.getD j 0) (cantorBasis.getD i 0#16).toNat)) a) := by
  obtain ⟨hs, hc⟩ := h
  refine ⟨?_, fun c hcl => ?_⟩
  · rw [foldl_set_size (fun _ j => j + 2 ^ i)
      (fun a j => Nat.xor (a.getD j 0) (cantorBasis.getD i 0#16).toNat), hs]
  · have hpow : 2 ^ (i + 1) ≤ 65536 :=
      Nat.pow_le_pow_right (by decide) (show i + 1 ≤ 16 by omega)
    have e : 2 ^ (i + 1) = 2 ^ i + 2 ^ i := by rw [Nat.pow_succ]; omega
    rw [shiftFill_getD (fun v => Nat.xor v (cantorBasis.getD i 0#16).toNat) (2 ^ i) (2 ^ i) a
      (Nat.le_refl _) c]
    by_cases hlo : c < 2 ^ i
    · rw [if_neg (by omega)]; exact hc c hlo
    · rw [if_pos ⟨by omega, by omega, by omega⟩, hc (c - 2 ^ i) (by omega),
        phi_basis_fin ⟨i, hi⟩, natXor_toNat, ← phi_xor, BitVec.xor_comm,
        ← ofNat_add_of_dvd (Nat.dvd_refl _) (show c - 2 ^ i < 2 ^ i by omega)]
      congr 3; omega

theorem cantorFill_inv (n : Nat) : ∀ (i : Nat) (a : Array Nat), i + n ≤ 16 →
    CantorInv i a → CantorInv (i + n) (cantorFill n i a) := by
  induction n with
  | zero => intro i a _ h; exact h
  | succ n ih =>
    intro i a hb h
    have h2 := ih (i + 1) _ (by omega) (h.step (by omega))
    rw [show i + 1 + n = i + (n + 1) by omega] at h2
    rw [cantorFill_succ]
    exact h2

theorem cantorInv_init : CantorInv 0 (Array.replicate 65536 0) := by
  refine ⟨Array.size_replicate, fun c hc => ?_⟩
  have : c = 0 := by simpa using hc
  subst this
  rw [getD_replicate_zero]
  decide

/-- A.2: after the Cantor loop entry `c` is `phi c` -/
theorem cantorFill_spec : CantorInv 16 (cantorFill 16 0 (Array.replicate 65536 0)) := by
  have := cantorFill_inv 16 0 _ (by decide) cantorInv_init
  rw [Nat.zero_add] at this
  exact this

theorem cantorFill_get {L : Array Nat} (hL : CantorInv 16 L) (c : Nat) (hc : c < 65536) :
    L.getD c 0 = (phi (BitVec.ofNat 16 c)).toNat := hL.2 c hc

/-! ## A.3 `initialize_exp_log` -/

/-- `initialize_exp_log` with the results of its first two loops abstracted -/
def exp0Of (E : Array Nat) : Array Nat := E.setIfInBounds 0 65535
def log1Of (E L : Array Nat) : Array Nat :=
  Array.ofFn (n := 65536) fun i => (exp0Of E).getD (L.getD i.val 0) 0
def exp1Of (E L : Array Nat) : Array Nat :=
  (List.range 65536).foldl (fun e i => e.setIfInBounds ((log1Of E L).getD i 0) i) (exp0Of E)
def exp2Of (E L : Array Nat) : Array Nat :=
  (exp1Of E L).setIfInBounds 65535 ((exp1Of E L).getD 0 0)

theorem initExpLog_eq : initExpLog =
    (exp2Of (lfsrFill 65535 0 1 (Array.replicate 65536 0))
        (cantorFill 16 0 (Array.replicate 65536 0)),
      log1Of (lfsrFill 65535 0 1 (Array.replicate 65536 0))
        (cantorFill 16 0 (Array.replicate 65536 0))) := rfl

/-- scatter `e[f i] := i` for `i < n` with `f` injective: afterwards `e[f i] = i` -/
theorem scatter_getD (f : Nat → Nat) (e : Array Nat) : ∀ (n : Nat),
    (∀ i j, i < n → j < n → f i = f j → i = j) → (∀ i, i < n → f i < e.size) →
    ∀ i, i < n → ((List.range n).foldl (fun e i => e.setIfInBounds (f i) i) e).getD (f i) 0 = i := by
  intro n
  induction n with
  | zero => intro _ _ i hi; omega
  | succ n ih =>
    intro hinj hb i hi
    rw [List.range_succ, List.foldl_append, List.foldl_cons, List.foldl_nil, getD_setIfInBounds,
      foldl_set_size (fun _ i => f i) (fun _ i => i)]
    by_cases h : i = n
    · subst h
      rw [if_pos ⟨rfl, hb i hi⟩]
    · have hne : f n ≠ f i := fun h' => h (hinj n i (by omega) hi h').symm
      rw [if_neg (fun h' => hne h'.1)]
      exact ih (fun i j hi hj => hinj i j (by omega) (by omega)) (fun i hi => hb i (by omega))
        i (by omega)

theorem logArr_getD_lt {c : Nat} (hc : c < 65536) (h0 : c ≠ 0) :
    logArr.getD c 0 < 65535 ∧ gexp (logArr.getD c 0) = BitVec.ofNat 16 c := by
  have hne : BitVec.ofNat 16 c ≠ 0 := by
    intro h
    apply h0
    have := congrArg BitVec.toNat h
    rw [toNat_ofNat_lt hc] at this
    exact this
  have h1 := logArr_spec _ hne
  rw [toNat_ofNat_lt hc] at h1
  rw [h1]
  exact glog_spec _ hne

/-- the log table is injective on `[0, 65536)` -/
theorem logArr_inj {i j : Nat} (hi : i < 65536) (hj : j < 65536)
    (h : logArr.getD i 0 = logArr.getD j 0) : i = j := by
  by_cases hi0 : i = 0
  · by_cases hj0 : j = 0
    · omega
    · subst hi0
      have := (logArr_getD_lt hj hj0).1
      rw [← h, logArr_zero] at this
      omega
  · by_cases hj0 : j = 0
    · subst hj0
      have := (logArr_getD_lt hi hi0).1
      rw [h, logArr_zero] at this
      omega
    · have h1 := (logArr_getD_lt hi hi0).2
      have h2 := (logArr_getD_lt hj hj0).2
      rw [h, h2] at h1
      have := congrArg BitVec.toNat h1
      rw [toNat_ofNat_lt hi, toNat_ofNat_lt hj] at this
      exact this.symm

section withEL
variable {E L : Array Nat} (hE : LfsrInv 65535 E) (hL : CantorInv 16 L)
include hE hL

omit hE hL in
theorem log1Of_size : (log1Of E L).size = 65536 := by
  unfold log1Of; exact Array.size_ofFn

theorem log1Of_get (c : Nat) (hc : c < 65536) : (log1Of E L).getD c 0 = logArr.getD c 0 := by
  unfold log1Of exp0Of
  rw [getD_ofFn _ c hc]
  show (E.setIfInBounds 0 65535).getD (L.getD c 0) 0 = _
  rw [cantorFill_get hL c hc, exp0_spec hE, phiInv_phi, toNat_ofNat_lt hc]

omit hL in
theorem exp1Of_size : (exp1Of E L).size = 65536 := by
  unfold exp1Of exp0Of
  rw [foldl_set_size (fun _ i => (log1Of E L).getD i 0) (fun _ i => i),
    Array.size_setIfInBounds, hE.1]

theorem exp1Of_get (k : Nat) (hk : k < 65535) : (exp1Of E L).getD k 0 = (gexp k).toNat := by
  have hlog := log1Of_get hE hL
  have key := scatter_getD (fun i => (log1Of E L).getD i 0) (exp0Of E) 65536
    (fun i j hi hj h => by
      simp only [hlog i hi, hlog j hj] at h
      exact logArr_inj hi hj h)
    (fun i hi => by
      simp only [hlog i hi]
      unfold exp0Of
      rw [Array.size_setIfInBounds, hE.1]
      exact Nat.lt_succ_of_le (logArr_le i))
    (gexp k).toNat (sym_toNat_lt _)
  simp only [hlog _ (sym_toNat_lt (gexp k)), logArr_gexp k hk] at key
  exact key

theorem exp2Of_get (k : Nat) (hk : k < 65536) : (exp2Of E L).getD k 0 = (gexp k).toNat := by
  unfold exp2Of
  rw [getD_setIfInBounds]
  by_cases h : k = 65535
  · subst h
    rw [if_pos ⟨rfl, by rw [exp1Of_size hE]; decide⟩, gexp_65535, ← gexp_zero]
    exact exp1Of_get hE hL 0 (by decide)
  · rw [if_neg (fun h' => h h'.1.symm)]
    exact exp1Of_get hE hL k (by omega)

omit hL in
theorem exp2Of_size : (exp2Of E L).size = 65536 := by
  unfold exp2Of
  rw [Array.size_setIfInBounds, exp1Of_size hE]

end withEL

theorem initExpLog_fst : initExpLog.1 =
    exp2Of (lfsrFill 65535 0 1 (Array.replicate 65536 0))
      (cantorFill 16 0 (Array.replicate 65536 0)) := by
  rw [initExpLog_eq]

theorem initExpLog_snd : initExpLog.2 =
    log1Of (lfsrFill 65535 0 1 (Array.replicate 65536 0))
      (cantorFill 16 0 (Array.replicate 65536 0)) := by
  rw [initExpLog_eq]

/-- A.3 (log): `log[c]` is the specified log table -/
theorem initExpLog_log (c : Nat) (hc : c < 65536) :
    initExpLog.2.getD c 0 = logArr.getD c 0 := by
  rw [initExpLog_snd]
  exact log1Of_get lfsrFill_spec cantorFill_spec c hc

theorem initExpLog_log_size : initExpLog.2.size = 65536 := by
  rw [initExpLog_snd]
  exact log1Of_size

/-- A.3 (exp): `exp[k] = g^k`, in particular `exp[65535] = exp[0] = 1` -/
theorem initExpLog_exp (k : Nat) (hk : k < 65536) :
    initExpLog.1.getD k 0 = (gexp k).toNat := by
  rw [initExpLog_fst]
  exact exp2Of_get lfsrFill_spec cantorFill_spec k hk

theorem initExpLog_exp_expArr (k : Nat) (hk : k < 65536) :
    initExpLog.1.getD k 0 = (expArr.getD k 0#16).toNat := by
  rw [initExpLog_exp k hk, expArr_get k hk]

theorem initExpLog_exp_size : initExpLog.1.size = 65536 := by
  rw [initExpLog_fst]
  exact exp2Of_size lfsrFill_spec

/-- the log table as a discrete logarithm: `log[c] = glog c` for `c ≠ 0`, `log[0] = 65535` -/
theorem initExpLog_log_glog (x : Sym) (hx : x ≠ 0) : initExpLog.2.getD x.toNat 0 = glog x := by
  rw [initExpLog_log _ (sym_toNat_lt x), logArr_spec x hx]

theorem initExpLog_log_zero : initExpLog.2.getD 0 0 = 65535 := by
  rw [initExpLog_log 0 (by decide), logArr_zero]

/-- `e[log c] = c` -/
theorem initExpLog_exp_log (x : Sym) (hx : x ≠ 0) :
    initExpLog.1.getD (initExpLog.2.getD x.toNat 0) 0 = x.toNat := by
  rw [initExpLog_log_glog x hx, initExpLog_exp _ (by have := (glog_spec x hx).1; omega),
    (glog_spec x hx).2]

/-! ## the hypotheses "given A" -/

/-- what the later construction steps need from the pair `(exp, log)` -/
structure ExpLogOK (e l : Array Nat) : Prop where
  lsize : l.size = 65536
  log : ∀ c, c < 65536 → l.getD c 0 = logArr.getD c 0
  exp : ∀ k, k < 65536 → e.getD k 0 = (gexp k).toNat

/-- A: the tables built by `initialize_exp_log` satisfy them -/
theorem initExpLog_ok : ExpLogOK initExpLog.1 initExpLog.2 :=
  ⟨initExpLog_log_size, initExpLog_log, initExpLog_exp⟩

theorem getD_eq_getElem' (a : Array Nat) (i : Nat) (h : i < a.size) : a.getD i 0 = a[i] := by
  simp [Array.getD, h]

/-- a log table that agrees entrywise with `logArr` is `logArr` -/
theorem ExpLogOK.log_eq {e l : Array Nat} (ok : ExpLogOK e l) : l = logArr := by
  apply Array.ext
  · rw [ok.lsize, logArr_size]
  · intro i h1 h2
    have := ok.log i (by rw [← ok.lsize]; exact h1)
    rw [getD_eq_getElem' l i h1, getD_eq_getElem' logArr i h2] at this
    exact this

theorem initExpLog_log_eq : initExpLog.2 = logArr := initExpLog_ok.log_eq

/-! ## B. the multiplication tables -/

theorem gexp_addMod {a b : Nat} (ha : a ≤ 65535) (hb : b ≤ 65535) :
    gexp (addMod a b) = gmul (gexp a) (gexp b) := by
  obtain ⟨h1, h2⟩ := addMod_spec a b (by omega) (by omega)
  rw [← gexp_add a b (by omega)]
  exact gexp_mod_eq h2 (by omega) (by omega)

theorem addMod_le {a b : Nat} (ha : a ≤ 65535) (hb : b ≤ 65535) : addMod a b ≤ 65535 := by
  have := (addMod_spec a b (by omega) (by omega)).1
  omega

section withOK
variable {e l : Array Nat} (ok : ExpLogOK e l)
include ok

/-- `tables::mul(x, log_m)` multiplies by `g^log_m` -/
theorem tmul_spec (x logm : Nat) (hx : x < 65536) (hm : logm ≤ 65535) :
    tmul e l x logm = (gmul (BitVec.ofNat 16 x) (gexp logm)).toNat := by
  unfold tmul
  by_cases h0 : x = 0
  · subst h0
    rw [if_pos rfl]
    have : gmul (BitVec.ofNat 16 0) (gexp logm) = 0 := gmul_zero_left _
    rw [this]; rfl
  · rw [if_neg h0, ok.log x hx]
    obtain ⟨h1, h2⟩ := logArr_getD_lt hx h0
    rw [ok.exp _ (Nat.lt_succ_of_le (addMod_le (by omega) hm)), gexp_addMod (by omega) hm, h2]

/-- B: every entry of the `Mul16` table is the specified `lut16` entry -/
theorem initMul16Entry_spec (logm k i : Nat) (hm : logm ≤ 65535) (hk : k < 4) (hi : i < 16) :
    initMul16Entry e l logm k i = (lut16 (fun y => gmul (gexp logm) y) k i).toNat := by
  unfold initMul16Entry lut16
  have hp : 2 ^ (4 * k) ≤ 2 ^ 12 := Nat.pow_le_pow_right (by decide) (by omega)
  have hx : i * 2 ^ (4 * k) < 65536 :=
    Nat.lt_of_le_of_lt (Nat.mul_le_mul (show i ≤ 15 by omega) hp) (by decide)
  rw [tmul_spec ok _ _ hx hm, gmul_comm]

/-! ## C. the log-Walsh table -/

/-- C: `initialize_log_walsh` produces `LOG_WALSH` -/
theorem initLogWalsh_spec : initLogWalsh l = logWalshArr := by
  unfold initLogWalsh
  rw [ok.log_eq, logWalshArr_def, lgArr]

end withOK

theorem initMul16Entry_initExpLog (logm k i : Nat) (hm : logm ≤ 65535) (hk : k < 4) (hi : i < 16) :
    initMul16Entry initExpLog.1 initExpLog.2 logm k i =
      (lut16 (fun y => gmul (gexp logm) y) k i).toNat :=
  initMul16Entry_spec initExpLog_ok logm k i hm hk hi

theorem initLogWalsh_initExpLog : initLogWalsh initExpLog.2 = logWalshArr :=
  initLogWalsh_spec initExpLog_ok

/-! ## D. the skew table -/

theorem pow_succ2 (m : Nat) : 2 ^ (m + 1) = 2 * 2 ^ m := by rw [Nat.pow_succ, Nat.mul_comm]

theorem pow_mds (m d : Nat) : 2 ^ (m + d + 1) = 2 ^ d * 2 ^ (m + 1) := by
  rw [show m + d + 1 = d + (m + 1) by omega, Nat.pow_add]

theorem skewInner_zero (step s tempi j : Nat) (a : Array Nat) :
    skewInner step s tempi 0 j a = a := rfl

theorem skewInner_succ (step s tempi f j : Nat) (a : Array Nat) :
    skewInner step s tempi (f + 1) j a =
      if j < s then skewInner step s tempi f (j + step)
        (a.setIfInBounds (j + s) (Nat.xor (a.getD j 0) tempi))
      else a := rfl

/-- the first `T` entries of level `m` (indices `2^m - 1 + t·2^(m+1)`) hold `s_m(t·2^(m+1))` -/
def LevelOK (m T : Nat) (a : Array Nat) : Prop :=
  ∀ t, t < T → a.getD (2 ^ m - 1 + t * 2 ^ (m + 1)) 0 =
    (sPoly m (BitVec.ofNat 16 (t * 2 ^ (m + 1)))).toNat

/-- entries outside level `m` are unchanged -/
def Frame (m : Nat) (a a' : Array Nat) : Prop :=
  a'.size = a.size ∧ ∀ k, (∀ t, k ≠ 2 ^ m - 1 + t * 2 ^ (m + 1)) → a'.getD k 0 = a.getD k 0

theorem Frame.refl (m : Nat) (a : Array Nat) : Frame m a a := ⟨rfl, fun _ _ => rfl⟩

theorem Frame.trans {m : Nat} {a b c : Array Nat} (h1 : Frame m a b) (h2 : Frame m b c) :
    Frame m a c :=
  ⟨h2.1.trans h1.1, fun k hk => (h2.2 k hk).trans (h1.2 k hk)⟩

theorem Frame.set (m t v : Nat) (a : Array Nat) :
    Frame m a (a.setIfInBounds (2 ^ m - 1 + t * 2 ^ (m + 1)) v) := by
  refine ⟨Array.size_setIfInBounds, fun k hk => ?_⟩
  rw [getD_setIfInBounds, if_neg (fun hc => hk t hc.1.symm)]

/-- the inner `while` loop for one `i = m + d`: it doubles the filled part of level `m` -/
theorem skewInner_spec {m d : Nat} (hmd : m + d ≤ 14) : ∀ (f t : Nat) (a : Array Nat),
    t ≤ 2 ^ d → 2 ^ d ≤ t + f → a.size = 65535 → LevelOK m (2 ^ d + t) a →
    LevelOK m (2 ^ (d + 1)) (skewInner (2 ^ (m + 1)) (2 ^ (m + d + 1))
        (sPoly m (BitVec.ofNat 16 (2 ^ (m + d + 1)))).toNat f (2 ^ m - 1 + t * 2 ^ (m + 1)) a) ∧
      Frame m a (skewInner (2 ^ (m + 1)) (2 ^ (m + d + 1))
        (sPoly m (BitVec.ofNat 16 (2 ^ (m + d + 1)))).toNat f (2 ^ m - 1 + t * 2 ^ (m + 1)) a) := by
  have hS : 2 ^ (m + 1) = 2 * 2 ^ m := pow_succ2 m
  have hB : 0 < 2 ^ m := Nat.two_pow_pos m
  have hD : 0 < 2 ^ d := Nat.two_pow_pos d
  have hs : 2 ^ (m + d + 1) = 2 ^ d * 2 ^ (m + 1) := pow_mds m d
  have hbound : 2 ^ d * 2 ^ (m + 1) * 2 ≤ 65536 := by
    rw [← hs, ← Nat.pow_succ]
    exact Nat.pow_le_pow_right (by decide) (show m + d + 1 + 1 ≤ 16 by omega)
  have h2 : 2 ^ (d + 1) = 2 ^ d + 2 ^ d := by rw [Nat.pow_succ]; omega
  intro f
  induction f with
  | zero =>
    intro t a ht hf _ hok
    have e : t = 2 ^ d := by omega
    rw [skewInner_zero]
    refine ⟨?_, Frame.refl m a⟩
    rw [h2]
    rw [e] at hok
    exact hok
  | succ f ih =>
    intro t a ht hf hsz hok
    rw [skewInner_succ]
    by_cases hlt : t < 2 ^ d
    · have hmul : (t + 1) * 2 ^ (m + 1) ≤ 2 ^ d * 2 ^ (m + 1) := Nat.mul_le_mul_right _ hlt
      rw [Nat.add_mul, Nat.one_mul] at hmul
      have hj : 2 ^ m - 1 + t * 2 ^ (m + 1) < 2 ^ (m + d + 1) := by rw [hs]; omega
      rw [if_pos hj]
      have hidx : 2 ^ m - 1 + t * 2 ^ (m + 1) + 2 ^ (m + d + 1) =
          2 ^ m - 1 + (2 ^ d + t) * 2 ^ (m + 1) := by
        rw [hs, Nat.add_mul]; omega
      have hnext : 2 ^ m - 1 + t * 2 ^ (m + 1) + 2 ^ (m + 1) =
          2 ^ m - 1 + (t + 1) * 2 ^ (m + 1) := by
        rw [Nat.add_mul, Nat.one_mul]; omega
      have hin : 2 ^ m - 1 + (2 ^ d + t) * 2 ^ (m + 1) < 65535 := by
        rw [Nat.add_mul]; omega
      have hval : Nat.xor (sPoly m (BitVec.ofNat 16 (t * 2 ^ (m + 1)))).toNat
            (sPoly m (BitVec.ofNat 16 (2 ^ (m + d + 1)))).toNat =
          (sPoly m (BitVec.ofNat 16 ((2 ^ d + t) * 2 ^ (m + 1)))).toNat := by
        rw [natXor_toNat, ← sPoly_add, BitVec.xor_comm,
          ← ofNat_add_of_dvd (j := m + d + 1) (Nat.dvd_refl _) (by rw [hs]; omega), hs,
          Nat.add_mul]
      rw [hidx, hnext, hok t (by omega), hval]
      have hok' : LevelOK m (2 ^ d + (t + 1))
          (a.setIfInBounds (2 ^ m - 1 + (2 ^ d + t) * 2 ^ (m + 1))
            (sPoly m (BitVec.ofNat 16 ((2 ^ d + t) * 2 ^ (m + 1)))).toNat) := by
        intro t' ht'
        rw [getD_setIfInBounds]
        by_cases he : t' = 2 ^ d + t
        · subst he
          rw [if_pos ⟨rfl, by rw [hsz]; exact hin⟩]
        · rw [if_neg]
          · exact hok t' (by omega)
          · intro hc
            apply he
            have h3 : (2 ^ d + t) * 2 ^ (m + 1) = t' * 2 ^ (m + 1) := by omega
            exact (Nat.eq_of_mul_eq_mul_right (Nat.two_pow_pos (m + 1)) h3).symm
      obtain ⟨r1, r2⟩ := ih (t + 1) _ (by omega) (by omega)
        (by rw [Array.size_setIfInBounds, hsz]) hok'
      exact ⟨r1, Frame.trans (Frame.set m _ _ a) r2⟩
    · have e : t = 2 ^ d := by omega
      have hj : ¬ 2 ^ m - 1 + t * 2 ^ (m + 1) < 2 ^ (m + d + 1) := by rw [hs, e]; omega
      rw [if_neg hj]
      refine ⟨?_, Frame.refl m a⟩
      rw [h2]
      rw [e] at hok
      exact hok

/-- the skew part of one outer iteration -/
def skewLevel (m : Nat) (temp skew : Array Nat) : Array Nat :=
  (List.range (15 - m)).foldl
    (fun sk d => skewInner (2 ^ (m + 1)) (2 ^ (m + d + 1)) (temp.getD (m + d) 0) 65536 (2 ^ m - 1) sk)
    (skew.setIfInBounds (2 ^ m - 1) 0)

/-- the `temp` part of one outer iteration -/
def tempNext (e l : Array Nat) (m : Nat) (temp : Array Nat) : Array Nat :=
  (List.range (14 - m)).foldl
    (fun t d => t.setIfInBounds (m + 1 + d) (tmul e l (t.getD (m + 1 + d) 0)
      (addMod (l.getD (Nat.xor (t.getD (m + 1 + d) 0) 1) 0)
        (65535 - l.getD (tmul e l (temp.getD m 0) (l.getD (Nat.xor (temp.getD m 0) 1) 0)) 0))))
    (temp.setIfInBounds m
      (65535 - l.getD (tmul e l (temp.getD m 0) (l.getD (Nat.xor (temp.getD m 0) 1) 0)) 0))

theorem skewOuterStep_eq (e l : Array Nat) (m : Nat) (skew temp : Array Nat) :
    skewOuterStep e l m (skew, temp) = (skewLevel m temp skew, tempNext e l m temp) := rfl

/-- the inner-loop fill lemma for one level: after the loops for `i = m … 14` all of level `m`
    is filled, and nothing else has changed -/
theorem skewLevel_spec {m : Nat} (hm : m ≤ 14) {temp skew : Array Nat} (hsz : skew.size = 65535)
    (htemp : ∀ i, m ≤ i → i < 15 →
      temp.getD i 0 = (sPoly m (BitVec.ofNat 16 (2 ^ (i + 1)))).toNat) :
    LevelOK m (2 ^ (15 - m)) (skewLevel m temp skew) ∧ Frame m skew (skewLevel m temp skew) := by
  have key : ∀ n, n ≤ 15 - m →
      LevelOK m (2 ^ n) ((List.range n).foldl
        (fun sk d => skewInner (2 ^ (m + 1)) (2 ^ (m + d + 1)) (temp.getD (m + d) 0) 65536
          (2 ^ m - 1) sk) (skew.setIfInBounds (2 ^ m - 1) 0)) ∧
      Frame m skew ((List.range n).foldl
        (fun sk d => skewInner (2 ^ (m + 1)) (2 ^ (m + d + 1)) (temp.getD (m + d) 0) 65536
          (2 ^ m - 1) sk) (skew.setIfInBounds (2 ^ m - 1) 0)) := by
    intro n
    induction n with
    | zero =>
      intro _
      refine ⟨?_, ?_⟩
      · intro t ht
        have : t = 0 := by simpa using ht
        subst this
        show (skew.setIfInBounds (2 ^ m - 1) 0).getD (2 ^ m - 1 + 0 * 2 ^ (m + 1)) 0 = _
        have hp : 2 ^ m ≤ 2 ^ 14 := Nat.pow_le_pow_right (by decide) hm
        rw [Nat.zero_mul, Nat.add_zero, getD_setIfInBounds, sPoly_zero_arg,
          if_pos ⟨rfl, by rw [hsz]; omega⟩]
        rfl
      · have := Frame.set m 0 0 skew
        rw [Nat.zero_mul, Nat.add_zero] at this
        exact this
    | succ n ih =>
      intro hn
      obtain ⟨r1, r2⟩ := ih (by omega)
      rw [List.range_succ, List.foldl_append, List.foldl_cons, List.foldl_nil,
        htemp (m + n) (by omega) (by omega)]
      have hfuel : 2 ^ n ≤ 0 + 65536 := by
        have := Nat.pow_le_pow_right (show 0 < 2 by decide) (show n ≤ 16 by omega)
        omega
      have := skewInner_spec (m := m) (d := n) (by omega) 65536 0 _ (Nat.zero_le _) hfuel
        (r2.1.trans hsz) (by rw [Nat.add_zero]; exact r1)
      rw [Nat.zero_mul, Nat.add_zero] at this
      exact ⟨this.1, Frame.trans r2 this.2⟩
  exact key (15 - m) (Nat.le_refl _)

/-! ### the `temp` update: `t ↦ t·(t ⊕ 1)` -/

theorem sPoly_zero_of_le {j : Nat} {x : Sym} (h : sPoly j x = 0#16) :
    ∀ k, sPoly (j + k) x = 0#16
  | 0 => h
  | k + 1 => by
    rw [← Nat.add_assoc, sPoly_succ, sPoly_zero_of_le h k]
    exact gmul_zero_left _

theorem gone_ne_zero : gone ≠ 0#16 := by decide

/-- `s_m(2^(i+1)) ≠ 1` for `m ≤ i < 15` (else `s_(i+1)(2^(i+1))` would vanish) -/
theorem sPoly_ne_gone {m i : Nat} (hmi : m ≤ i) (hi : i < 15) :
    sPoly m (BitVec.ofNat 16 (2 ^ (i + 1))) ≠ gone := by
  intro h
  have h1 : sPoly (m + 1) (BitVec.ofNat 16 (2 ^ (i + 1))) = 0#16 := by
    rw [sPoly_succ, h, xor_self']
    exact gmul_zero_right _
  have h2 := sPoly_zero_of_le h1 (i - m)
  rw [show m + 1 + (i - m) = i + 1 by omega, sPoly_basisF (i + 1) (by omega)] at h2
  exact gone_ne_zero h2

theorem xor_gone_ne_zero {y : Sym} (hy : y ≠ gone) : y ^^^ gone ≠ 0#16 := by
  intro h
  apply hy
  have : y = (y ^^^ gone) ^^^ gone := by rw [BitVec.xor_assoc, xor_self', xor_zero']
  rw [this, h, zero_xor']

section withOK2
variable {e l : Array Nat} (ok : ExpLogOK e l)
include ok

theorem log_xor_one (y : Sym) (hy : y ≠ gone) :
    l.getD (Nat.xor y.toNat 1) 0 < 65535 ∧ gexp (l.getD (Nat.xor y.toNat 1) 0) = y ^^^ gone := by
  have e1 : Nat.xor y.toNat 1 = (y ^^^ gone).toNat := natXor_toNat y gone
  have hne := xor_gone_ne_zero hy
  rw [e1, ok.log _ (sym_toNat_lt _), logArr_spec _ hne]
  exact glog_spec _ hne

theorem tmul_artin0 (y : Sym) (hy : y ≠ gone) :
    tmul e l y.toNat (l.getD (Nat.xor y.toNat 1) 0) = (gmul y (y ^^^ gone)).toNat := by
  obtain ⟨h1, h2⟩ := log_xor_one ok y hy
  rw [tmul_spec ok _ _ (sym_toNat_lt y) (by omega), ofNat_toNat_sym, h2]

theorem tmul_artin (y : Sym) (hy : y ≠ gone) :
    tmul e l y.toNat (addMod (l.getD (Nat.xor y.toNat 1) 0) 65535) =
      (gmul y (y ^^^ gone)).toNat := by
  obtain ⟨h1, h2⟩ := log_xor_one ok y hy
  rw [tmul_spec ok _ _ (sym_toNat_lt y) (addMod_le (by omega) (Nat.le_refl _)), ofNat_toNat_sym,
    gexp_addMod (by omega) (Nat.le_refl _), gexp_65535, gmul_one_right, h2]

/-- the normalisation logarithm of iteration `m` is `65535` (≡ 0): `s_(m+1)(2^(m+1)) = 1` -/
theorem tmNew_eq {m : Nat} (hm : m ≤ 14) :
    65535 - l.getD (tmul e l (sPoly m (BitVec.ofNat 16 (2 ^ (m + 1)))).toNat
      (l.getD (Nat.xor (sPoly m (BitVec.ofNat 16 (2 ^ (m + 1)))).toNat 1) 0)) 0 = 65535 := by
  rw [tmul_artin0 ok _ (sPoly_ne_gone (Nat.le_refl m) (by omega)), ← sPoly_succ,
    sPoly_basisF (m + 1) (by omega)]
  have : l.getD gone.toNat 0 = 0 := by
    rw [ok.log _ (by decide), ← gexp_zero]
    exact logArr_gexp 0 (by decide)
  rw [this]

/-- invariant for `temp`: one outer iteration turns `s_m(2^(i+1))` into `s_(m+1)(2^(i+1))` -/
theorem tempNext_spec {m : Nat} (hm : m ≤ 14) {temp : Array Nat} (hsz : temp.size = 15)
    (htemp : ∀ i, m ≤ i → i < 15 →
      temp.getD i 0 = (sPoly m (BitVec.ofNat 16 (2 ^ (i + 1)))).toNat) :
    (tempNext e l m temp).size = 15 ∧ ∀ i, m + 1 ≤ i → i < 15 →
      (tempNext e l m temp).getD i 0 = (sPoly (m + 1) (BitVec.ofNat 16 (2 ^ (i + 1)))).toNat := by
  unfold tempNext
  rw [htemp m (Nat.le_refl m) (by omega), tmNew_eq ok hm]
  have key : ∀ n, n ≤ 14 - m →
      ((List.range n).foldl
        (fun t d => t.setIfInBounds (m + 1 + d) (tmul e l (t.getD (m + 1 + d) 0)
          (addMod (l.getD (Nat.xor (t.getD (m + 1 + d) 0) 1) 0) 65535)))
        (temp.setIfInBounds m 65535)).size = 15 ∧
      (∀ i, m + 1 ≤ i → i < m + 1 + n →
        ((List.range n).foldl
          (fun t d => t.setIfInBounds (m + 1 + d) (tmul e l (t.getD (m + 1 + d) 0)
            (addMod (l.getD (Nat.xor (t.getD (m + 1 + d) 0) 1) 0) 65535)))
          (temp.setIfInBounds m 65535)).getD i 0 =
          (sPoly (m + 1) (BitVec.ofNat 16 (2 ^ (i + 1)))).toNat) ∧
      (∀ i, m + 1 + n ≤ i → i < 15 →
        ((List.range n).foldl
          (fun t d => t.setIfInBounds (m + 1 + d) (tmul e l (t.getD (m + 1 + d) 0)
            (addMod (l.getD (Nat.xor (t.getD (m + 1 + d) 0) 1) 0) 65535)))
          (temp.setIfInBounds m 65535)).getD i 0 =
          (sPoly m (BitVec.ofNat 16 (2 ^ (i + 1)))).toNat) := by
    intro n
    induction n with
    | zero =>
      intro _
      refine ⟨?_, fun i h1 h2 => by omega, fun i h1 h2 => ?_⟩
      · show (temp.setIfInBounds m 65535).size = 15
        rw [Array.size_setIfInBounds, hsz]
      · show (temp.setIfInBounds m 65535).getD i 0 = _
        rw [getD_setIfInBounds, if_neg (by omega)]
        exact htemp i (by omega) h2
    | succ n ih =>
      intro hn
      obtain ⟨r1, r2, r3⟩ := ih (by omega)
      rw [List.range_succ, List.foldl_append, List.foldl_cons, List.foldl_nil,
        r3 (m + 1 + n) (Nat.le_refl _) (by omega),
        tmul_artin ok _ (sPoly_ne_gone (by omega) (by omega)), ← sPoly_succ]
      refine ⟨by rw [Array.size_setIfInBounds, r1], fun i h1 h2 => ?_, fun i h1 h2 => ?_⟩
      · rw [getD_setIfInBounds]
        by_cases hi : i = m + 1 + n
        · subst hi
          rw [if_pos ⟨rfl, by rw [r1]; omega⟩]
        · rw [if_neg (fun hc => hi hc.1.symm)]
          exact r2 i h1 (by omega)
      · rw [getD_setIfInBounds, if_neg (by omega)]
        exact r3 i (by omega) h2
  obtain ⟨r1, r2, _⟩ := key (14 - m) (Nat.le_refl _)
  exact ⟨r1, fun i h1 h2 => r2 i h1 (by omega)⟩

end withOK2

/-! ### the outer loop -/

theorem level_idx (m t : Nat) : 2 ^ m - 1 + t * 2 ^ (m + 1) + 1 = 2 ^ m * (2 * t + 1) := by
  have hB := Nat.two_pow_pos m
  have e1 : t * 2 ^ (m + 1) = 2 * (t * 2 ^ m) := by rw [pow_succ2, Nat.mul_left_comm]
  have e2 : 2 ^ m * (2 * t + 1) = 2 * (t * 2 ^ m) + 2 ^ m := by
    rw [Nat.mul_add, Nat.mul_one, Nat.mul_left_comm, Nat.mul_comm (2 ^ m) t]
  rw [e1, e2]; omega

theorem level_idx_inj {m m' t t' : Nat} (hm : m < 64) (hm' : m' < 64)
    (h : 2 ^ m - 1 + t * 2 ^ (m + 1) = 2 ^ m' - 1 + t' * 2 ^ (m' + 1)) : m = m' := by
  have h1 : 2 ^ m * (2 * t + 1) = 2 ^ m' * (2 * t' + 1) := by
    rw [← level_idx, ← level_idx, h]
  have a := tz_two_pow_mul (j := m) (m := 2 * t + 1) hm (by omega)
  rw [h1, tz_two_pow_mul hm' (by omega)] at a
  exact a.symm

/-- invariant of the outer loop of `initialize_skew` at the start of iteration `m` -/
structure OuterInv (m : Nat) (skew temp : Array Nat) : Prop where
  ssize : skew.size = 65535
  tsize : temp.size = 15
  levels : ∀ m', m' < m → LevelOK m' (2 ^ (15 - m')) skew
  top : skew.getD 32767 0 = 0
  temp : ∀ i, m ≤ i → i < 15 →
    temp.getD i 0 = (sPoly m (BitVec.ofNat 16 (2 ^ (i + 1)))).toNat

theorem OuterInv.step {e l : Array Nat} (ok : ExpLogOK e l) {m : Nat} (hm : m ≤ 14)
    {skew temp : Array Nat} (h : OuterInv m skew temp) :
    OuterInv (m + 1) (skewLevel m temp skew) (tempNext e l m temp) := by
  obtain ⟨l1, l2⟩ := skewLevel_spec hm h.ssize h.temp
  obtain ⟨t1, t2⟩ := tempNext_spec ok hm h.tsize h.temp
  refine ⟨l2.1.trans h.ssize, t1, fun m' hm' => ?_, ?_, t2⟩
  · by_cases he : m' = m
    · subst he; exact l1
    · intro t ht
      rw [l2.2 _ (fun t' hc => he (level_idx_inj (by omega) (by omega) hc))]
      exact h.levels m' (by omega) t ht
  · rw [l2.2 _ (fun t' hc => ?_)]
    · exact h.top
    · have h15 : (32767 : Nat) = 2 ^ 15 - 1 + 0 * 2 ^ (15 + 1) := by decide
      rw [h15] at hc
      have := level_idx_inj (by decide) (by omega) hc
      omega

theorem OuterInv.init : OuterInv 0 (Array.replicate 65535 0)
    (Array.ofFn (n := 15) fun i => 2 ^ (i.val + 1)) := by
  refine ⟨Array.size_replicate, Array.size_ofFn, fun m' h => by omega,
    getD_replicate_zero _ _, fun i _ hi => ?_⟩
  rw [getD_ofFn _ i hi, sPoly_zero]
  show 2 ^ (i + 1) = (BitVec.ofNat 16 (2 ^ (i + 1))).toNat
  have : 2 ^ (i + 1) ≤ 2 ^ 15 := Nat.pow_le_pow_right (by decide) (by omega)
  exact (toNat_ofNat_lt (by omega)).symm

theorem outer_fold {e l : Array Nat} (ok : ExpLogOK e l) : ∀ n, n ≤ 15 → ∃ sk tp,
    (List.range n).foldl (fun st m => skewOuterStep e l m st)
      (Array.replicate 65535 0, Array.ofFn (n := 15) fun i => 2 ^ (i.val + 1)) = (sk, tp) ∧
    OuterInv n sk tp := by
  intro n
  induction n with
  | zero => intro _; exact ⟨_, _, rfl, OuterInv.init⟩
  | succ n ih =>
    intro hn
    obtain ⟨sk, tp, h1, h2⟩ := ih (by omega)
    refine ⟨_, _, ?_, h2.step ok (by omega)⟩
    rw [List.range_succ, List.foldl_append, h1, List.foldl_cons, List.foldl_nil, skewOuterStep_eq]

theorem exists_two_pow_mul_odd : ∀ n, 0 < n → ∃ j t, n = 2 ^ j * (2 * t + 1) := by
  intro n
  induction n using Nat.strong_induction_on with
  | _ n ih =>
    intro hn
    by_cases h : n % 2 = 1
    · exact ⟨0, n / 2, by rw [Nat.pow_zero, Nat.one_mul]; omega⟩
    · obtain ⟨j, t, h'⟩ := ih (n / 2) (by omega) (by omega)
      refine ⟨j + 1, t, ?_⟩
      have e : n = 2 * (n / 2) := by omega
      calc n = 2 * (n / 2) := e
        _ = 2 * (2 ^ j * (2 * t + 1)) := by rw [← h']
        _ = 2 ^ (j + 1) * (2 * t + 1) := by rw [pow_succ2, Nat.mul_assoc]

/-- after the outer loop every entry is the twiddle factor, as a field element -/
theorem OuterInv.entry {sk tp : Array Nat} (inv : OuterInv 15 sk tp) (i : Nat) (hi : i < 65535) :
    sk.getD i 0 = (skewElem i).toNat := by
  obtain ⟨j, t, hjt⟩ := exists_two_pow_mul_odd (i + 1) (by omega)
  have hB := Nat.two_pow_pos j
  have hj16 : j < 16 := by
    apply Classical.byContradiction
    intro hc
    have h1 : 2 ^ 16 ≤ 2 ^ j := Nat.pow_le_pow_right (by decide) (by omega)
    have h2 : 2 ^ j * 1 ≤ 2 ^ j * (2 * t + 1) := Nat.mul_le_mul_left _ (by omega)
    have h3 : (2 : Nat) ^ 16 = 65536 := by decide
    omega
  have htz : tz (i + 1) = j := by rw [hjt]; exact tz_two_pow_mul (by omega) (by omega)
  have hel : skewElem i = sPoly j (BitVec.ofNat 16 (i + 1 - 2 ^ j)) := by
    simp only [skewElem]
    rw [htz]
  have hidx := level_idx j t
  rw [← hjt] at hidx
  rw [hel]
  by_cases hj : j ≤ 14
  · have ht : t < 2 ^ (15 - j) := by
      have h1 : 2 ^ j * 2 ^ (16 - j) = 65536 := by
        rw [← Nat.pow_add, show j + (16 - j) = 16 by omega]
      have h2 : 2 ^ j * (2 * t + 1) < 2 ^ j * 2 ^ (16 - j) := by omega
      have h3 := Nat.lt_of_mul_lt_mul_left h2
      have h4 : 2 ^ (16 - j) = 2 * 2 ^ (15 - j) := by
        rw [show 16 - j = (15 - j) + 1 by omega, pow_succ2]
      omega
    have hlv := inv.levels j (by omega) t ht
    rw [show 2 ^ j - 1 + t * 2 ^ (j + 1) = i by omega,
      show t * 2 ^ (j + 1) = i + 1 - 2 ^ j by omega] at hlv
    exact hlv
  · have e : j = 15 := by omega
    subst e
    have h1 : (2 : Nat) ^ 15 = 32768 := by decide
    rw [h1] at hjt
    have h2 : i = 32767 := by omega
    subst h2
    rw [inv.top, h1, Nat.sub_self]
    exact (congrArg BitVec.toNat (sPoly_zero_arg 15)).symm

/-- D: `initialize_skew` produces the `SKEW` table -/
theorem initSkew_spec {e l : Array Nat} (ok : ExpLogOK e l) (i : Nat) (hi : i < 65535) :
    (initSkew e l).getD i 0 = skewLog i := by
  obtain ⟨sk, tp, hst, inv⟩ := outer_fold ok 15 (Nat.le_refl _)
  have e1 : initSkew e l = Array.ofFn (n := 65535) fun i => l.getD (sk.getD i.val 0) 0 := by
    unfold initSkew
    dsimp only
    rw [hst]
  rw [e1, getD_ofFn _ i hi]
  show l.getD (sk.getD i 0) 0 = _
  rw [inv.entry i hi, ok.log _ (sym_toNat_lt _)]
  unfold skewLog
  rfl

theorem initSkew_size (e l : Array Nat) : (initSkew e l).size = 65535 := by
  unfold initSkew
  dsimp only
  generalize (List.range 15).foldl _ _ = st
  obtain ⟨sk, tp⟩ := st
  exact Array.size_ofFn

theorem initSkew_initExpLog (i : Nat) (hi : i < 65535) :
    (initSkew initExpLog.1 initExpLog.2).getD i 0 = skewLog i :=
  initSkew_spec initExpLog_ok i hi

end RS

#print axioms RS.lfsrStep_eq
#print axioms RS.lfsrFill_spec
#print axioms RS.cantorFill_spec
#print axioms RS.lfsrFill_get
#print axioms RS.lfsrFill_get_zero
#print axioms RS.cantorFill_get
#print axioms RS.initExpLog_log
#print axioms RS.initExpLog_log_glog
#print axioms RS.initExpLog_log_zero
#print axioms RS.initExpLog_exp_log
#print axioms RS.initExpLog_log_size
#print axioms RS.initExpLog_exp
#print axioms RS.initExpLog_exp_expArr
#print axioms RS.initExpLog_log_eq
#print axioms RS.initExpLog_ok
#print axioms RS.tmul_spec
#print axioms RS.initMul16Entry_spec
#print axioms RS.initMul16Entry_initExpLog
#print axioms RS.initLogWalsh_spec
#print axioms RS.initLogWalsh_initExpLog
#print axioms RS.skewInner_spec
#print axioms RS.skewLevel_spec
#print axioms RS.tempNext_spec
#print axioms RS.OuterInv.step
#print axioms RS.OuterInv.entry
#print axioms RS.initSkew_spec
#print axioms RS.initSkew_size
#print axioms RS.initSkew_initExpLog
