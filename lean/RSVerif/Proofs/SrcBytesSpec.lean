/-
  The byte-level layout code of the flat working memory AS TRANSLATED FROM TODAY'S SOURCE (Gen/SrcBytes.lean,
  regenerated from src/engine/shards.rs on every run): `Shards::insert` and `Shards::undo_last_chunk_encoding` as the
  lists of byte copies they perform, against the hand-written block model (Model/Blocks.lean: `bInsert`,
  `bUndoLast`) that Proofs/BlocksSpec.lean relates to the lane model (`layout` / `unlayout`).
-/
import RSVerif.Gen.SrcBytes
import RSVerif.Model.Flat
import RSVerif.Proofs.SrcShardsSpec
import RSVerif.Proofs.SrcBytesAux

set_option linter.unusedSimpArgs false

namespace RS.SrcS
open RS RS.RustS RS.RustB

/-- byte `p` of a vector of blocks (0 beyond the end) -/
def getByte (d : Array Block) (p : Nat) : Byte := (d.getD (p / 64) zeroBlock).toArray.getD (p % 64) 0#8

/-- writing byte `p` (nothing happens beyond the end) -/
def setByte (d : Array Block) (p : Nat) (v : Byte) : Array Block :=
  d.setIfInBounds (p / 64) ((d.getD (p / 64) zeroBlock).setIfInBounds (p % 64) v)

/-- performing `copy_from_slice` copies whose source is the caller's shard -/
def applyFromShard (d : Array Block) (shard : Array Nat) : List Copy → Array Block
  | [] => d
  | (dst, src, n) :: cs =>
    applyFromShard ((List.range n).foldl (fun d j => setByte d (dst + j) (BitVec.ofNat 8 (shard.getD (src + j) 0))) d) shard cs

/-- performing `copy_within` moves (memmove: every move reads the memory as it was before that move) -/
def applyMoves (d : Array Block) : List Copy → Array Block
  | [] => d
  | (dst, src, n) :: cs =>
    applyMoves ((List.range n).foldl (fun d' j => setByte d' (dst + j) (getByte d (src + j))) d) cs

/-! ### bytes of a vector of blocks -/

theorem size_setByte (d : Array Block) (p : Nat) (v : Byte) : (setByte d p v).size = d.size := by
  simp [setByte]

theorem getByte_setByte (d : Array Block) (p q : Nat) (v : Byte) :
    getByte (setByte d p v) q = if p = q ∧ p < 64 * d.size then v else getByte d q := by
  unfold getByte setByte
  by_cases hpq : p = q
  · subst hpq
    by_cases hp : p < 64 * d.size
    · have : p / 64 < d.size := by omega
      have h2 : p % 64 < 64 := by omega
      simp [Array.getD_eq_getD_getElem?, Array.getElem?_setIfInBounds, this, hp, h2]
    · have : ¬ p / 64 < d.size := by omega
      simp [Array.getD_eq_getD_getElem?, Array.getElem?_setIfInBounds, this, hp]
  · simp only [hpq, false_and, if_false]
    by_cases h1 : p / 64 = q / 64
    · have h2 : p % 64 ≠ q % 64 := by omega
      by_cases hp : q / 64 < d.size
      · simp [Array.getD_eq_getD_getElem?, Array.getElem?_setIfInBounds, h1, hp, Vector.getElem?_setIfInBounds, h2]
      · simp [Array.getD_eq_getD_getElem?, Array.getElem?_setIfInBounds, h1, hp]
    · simp [Array.getD_eq_getD_getElem?, Array.getElem?_setIfInBounds, h1]

/-- writing `n` bytes `g 0 .. g (n-1)` at `dst ..` -/
def writeBytes (d : Array Block) (dst n : Nat) (g : Nat → Byte) : Array Block :=
  (List.range n).foldl (fun d j => setByte d (dst + j) (g j)) d

theorem size_writeBytes (d : Array Block) (dst n : Nat) (g : Nat → Byte) :
    (writeBytes d dst n g).size = d.size := by
  unfold writeBytes
  induction n with
  | zero => rfl
  | succ n ih => rw [List.range_succ, List.foldl_append]; simp only [List.foldl_cons, List.foldl_nil, size_setByte, ih]

theorem getByte_writeBytes (d : Array Block) (dst n : Nat) (g : Nat → Byte) (q : Nat) :
    getByte (writeBytes d dst n g) q =
      if dst ≤ q ∧ q < dst + n ∧ q < 64 * d.size then g (q - dst) else getByte d q := by
  induction n with
  | zero =>
    rw [if_neg (by omega)]; rfl
  | succ n ih =>
    have hsz := size_writeBytes d dst n g
    unfold writeBytes at ih hsz ⊢
    rw [List.range_succ, List.foldl_append]
    simp only [List.foldl_cons, List.foldl_nil, getByte_setByte, ih, hsz]
    by_cases h : dst + n = q
    · subst h
      by_cases h2 : dst + n < 64 * d.size
      · simp [h2]
      · simp [h2]
    · simp only [h, false_and, if_false]
      by_cases h3 : dst ≤ q ∧ q < dst + n ∧ q < 64 * d.size
      · rw [if_pos h3, if_pos (by omega)]
      · rw [if_neg h3, if_neg (by omega)]

theorem getByte_oob (d : Array Block) (q : Nat) (h : 64 * d.size ≤ q) : getByte d q = 0#8 := by
  unfold getByte
  have : ¬ q / 64 < d.size := by omega
  have h6 : q % 64 < 64 := by omega
  simp [Array.getD_eq_getD_getElem?, this, zeroBlock, h6]

theorem blocks_ext (a b : Array Block) (hs : a.size = b.size)
    (h : ∀ q, q < 64 * a.size → getByte a q = getByte b q) : a = b := by
  apply Array.ext hs
  intro i h1 h2
  apply Vector.ext
  intro k hk
  have := h (64 * i + k) (by omega)
  unfold getByte at this
  have e1 : (64 * i + k) / 64 = i := by omega
  have e2 : (64 * i + k) % 64 = k := by omega
  simpa [e1, e2, Array.getD_eq_getD_getElem?, h1, h2, hk] using this

theorem getByte_extract (d : Array Block) (s e q : Nat) (he : e ≤ d.size) (hq : q < 64 * (e - s)) :
    getByte (d.extract s e) q = getByte d (64 * s + q) := by
  unfold getByte
  have e1 : (64 * s + q) / 64 = s + q / 64 := by omega
  have e2 : (64 * s + q) % 64 = q % 64 := by omega
  have h3 : q / 64 < e - s := by omega
  have h4 : q / 64 < min e d.size - s := by omega
  rw [e1, e2]
  have h5 : s + q / 64 < d.size := by omega
  simp [Array.getD_eq_getD_getElem?, Array.getElem?_extract, h4, h5]

theorem getByte_bInsert (old : Array Block) (shard : Array Nat) (q : Nat) (hq : q < 64 * old.size) :
    getByte (bInsert old shard) q =
      if q / 64 < shard.size / 64 then BitVec.ofNat 8 (shard.getD q 0)
      else if q / 64 = shard.size / 64 ∧ shard.size % 64 > 0 then
        if q % 64 < shard.size % 64 / 2 then BitVec.ofNat 8 (shard.getD (64 * (shard.size / 64) + q % 64) 0)
        else if 32 ≤ q % 64 ∧ q % 64 < 32 + shard.size % 64 / 2 then
          BitVec.ofNat 8 (shard.getD (64 * (shard.size / 64) + shard.size % 64 / 2 + (q % 64 - 32)) 0)
        else getByte old q
      else getByte old q := by
  have h1 : q / 64 < old.size := by omega
  have h2 : q % 64 < 64 := by omega
  have h3 : 64 * (q / 64) + q % 64 = q := by omega
  unfold getByte bInsert
  simp only [Array.getD_eq_getD_getElem?, Array.getElem?_ofFn, h1, dite_true, Option.getD_some]
  split
  · simp [h2, h3]
  · split
    · simp only [Vector.toArray_ofFn, Array.getElem?_ofFn, h2, dite_true, Option.getD_some]
      split
      · rfl
      · split
        · rfl
        · simp [h2, zeroBlock]
    · rfl

theorem getByte_bUndoLast (s : Array Block) (sb q : Nat) (hq : q < 64 * s.size) :
    getByte (bUndoLast s sb) q =
      if sb % 64 ≠ 0 ∧ q / 64 = sb / 64 ∧ sb % 64 / 2 ≤ q % 64 ∧ q % 64 < sb % 64 / 2 + sb % 64 / 2 then
        getByte s (64 * (q / 64) + 32 + (q % 64 - sb % 64 / 2))
      else getByte s q := by
  have h1 : q / 64 < s.size := by omega
  have h2 : q % 64 < 64 := by omega
  unfold bUndoLast
  by_cases ht : sb % 64 = 0
  · simp [ht]
  · simp only [ht, if_false, ne_eq, not_false_eq_true, true_and]
    unfold getByte
    simp only [Array.getD_eq_getD_getElem?, Array.getElem?_ofFn, h1, dite_true, Option.getD_some]
    by_cases hw : q / 64 = sb / 64
    · simp only [hw, if_true, true_and]
      simp only [Vector.toArray_ofFn, Array.getElem?_ofFn, h2, dite_true, Option.getD_some]
      split
      · have e1 : (64 * (sb / 64) + 32 + (q % 64 - sb % 64 / 2)) / 64 = sb / 64 := by omega
        have e2 : (64 * (sb / 64) + 32 + (q % 64 - sb % 64 / 2)) % 64 = 32 + (q % 64 - sb % 64 / 2) := by omega
        rw [e1, e2]; rfl
      · simp [h2, zeroBlock]
    · simp only [hw, if_false, false_and]
      rfl

theorem applyFromShard_cons (d : Array Block) (shard : Array Nat) (dst src n : Nat) (cs : List Copy) :
    applyFromShard d shard ((dst, src, n) :: cs) =
      applyFromShard (writeBytes d dst n (fun j => BitVec.ofNat 8 (shard.getD (src + j) 0))) shard cs := rfl

theorem applyFromShard_nil (d : Array Block) (shard : Array Nat) : applyFromShard d shard [] = d := rfl

theorem insert_bytes (d : Array Block) (shard : Array Nat) (B L : Nat) (hB : B + L ≤ d.size)
    (hn : shard.size ≤ 64 * L) (he : shard.size % 2 = 0) :
    (applyFromShard d shard
        [(64 * B, 0, 64 * (shard.size / 64)),
         (64 * (B + shard.size / 64), 64 * (shard.size / 64), shard.size % 64 / 2),
         (64 * (B + shard.size / 64) + 32, 64 * (shard.size / 64) + shard.size % 64 / 2,
           shard.size % 64 - shard.size % 64 / 2)]).size = d.size ∧
    ∀ p, getByte (applyFromShard d shard
        [(64 * B, 0, 64 * (shard.size / 64)),
         (64 * (B + shard.size / 64), 64 * (shard.size / 64), shard.size % 64 / 2),
         (64 * (B + shard.size / 64) + 32, 64 * (shard.size / 64) + shard.size % 64 / 2,
           shard.size % 64 - shard.size % 64 / 2)]) p =
      if 64 * B ≤ p ∧ p < 64 * (B + L) then getByte (bInsert (d.extract B (B + L)) shard) (p - 64 * B)
      else getByte d p := by
  simp only [applyFromShard_cons, applyFromShard_nil, getByte_writeBytes, size_writeBytes, true_and]
  intro p
  have hsz : (d.extract B (B + L)).size = L := by simp only [Array.size_extract]; omega
  by_cases hin : 64 * B ≤ p ∧ p < 64 * (B + L)
  · rw [if_pos hin]
    obtain ⟨q, rfl⟩ : ∃ q, p = 64 * B + q := ⟨p - 64 * B, by omega⟩
    have hq : q < 64 * L := by omega
    rw [Nat.add_sub_cancel_left, getByte_bInsert _ _ _ (by rw [hsz]; exact hq),
      getByte_extract _ _ _ _ (by omega) (by omega)]
    generalize shard.size = n at *
    repeat' split
    all_goals first | omega | rfl | (congr 2; omega)
  · rw [if_neg hin]
    repeat' split
    all_goals first | omega | rfl

theorem local_update (d d' X : Array Block) (B L : Nat) (hB : B + L ≤ d.size) (hsz : d'.size = d.size)
    (hX : X.size = L)
    (h : ∀ p, getByte d' p =
      if 64 * B ≤ p ∧ p < 64 * (B + L) then getByte X (p - 64 * B) else getByte d p) :
    d'.extract B (B + L) = X ∧
    ∀ B', B' + L ≤ d.size → (B' + L ≤ B ∨ B + L ≤ B') → d'.extract B' (B' + L) = d.extract B' (B' + L) := by
  constructor
  · apply blocks_ext
    · simp only [Array.size_extract]; omega
    · intro q hq
      have hq' : q < 64 * L := by simp only [Array.size_extract] at hq; omega
      rw [getByte_extract _ _ _ _ (by omega) (by omega), h, if_pos (by omega), Nat.add_sub_cancel_left]
  · intro B' hB' hdis
    apply blocks_ext
    · simp only [Array.size_extract]; omega
    · intro q hq
      have hq' : q < 64 * L := by simp only [Array.size_extract] at hq; omega
      rw [getByte_extract _ _ _ _ (by omega) (by omega), getByte_extract _ _ _ _ (by omega) (by omega), h,
        if_neg (by omega)]

theorem shard_some (f : Flat) (hwf : f.WF) (d' : Array Block) (hsz : d'.size = f.data.size) (j : Nat)
    (hj : j < f.count) :
    Flat.shard { f with data := d' } j = some (d'.extract (j * f.len64) (j * f.len64 + f.len64)) := by
  have h1 : (j + 1) * f.len64 ≤ f.count * f.len64 := Nat.mul_le_mul_right _ hj
  have h2 : (j + 1) * f.len64 = j * f.len64 + f.len64 := by rw [Nat.add_mul, Nat.one_mul]
  unfold Flat.WF at hwf
  simp only [Flat.shard, sliceRange]
  rw [if_pos (by omega), h2]

theorem shard_some' (f : Flat) (hwf : f.WF) (j : Nat) (hj : j < f.count) :
    f.shard j = some (f.data.extract (j * f.len64) (j * f.len64 + f.len64)) :=
  shard_some f hwf f.data rfl j hj

theorem shard_bounds (f : Flat) (hwf : f.WF) (j : Nat) (hj : j < f.count) :
    j * f.len64 + f.len64 ≤ f.data.size := by
  have h1 : (j + 1) * f.len64 ≤ f.count * f.len64 := Nat.mul_le_mul_right _ hj
  have h2 : (j + 1) * f.len64 = j * f.len64 + f.len64 := by rw [Nat.add_mul, Nat.one_mul]
  unfold Flat.WF at hwf
  omega

theorem shard_disjoint (L i j : Nat) (h : j ≠ i) : j * L + L ≤ i * L ∨ i * L + L ≤ j * L := by
  rcases Nat.lt_or_gt_of_ne h with h | h
  · left
    have := Nat.mul_le_mul_right L (show j + 1 ≤ i from h)
    rwa [Nat.add_mul, Nat.one_mul] at this
  · right
    have := Nat.mul_le_mul_right L (show i + 1 ≤ j from h)
    rwa [Nat.add_mul, Nat.one_mul] at this

/-! ### the two theorems -/

/-- `Shards::insert(index, shard)` for a shard of even length (what every caller validates; the source has a
    `debug_assert`): it panics exactly when the shard is longer than a work shard
    (`64 * shard_len_64` bytes), and otherwise the copies it performs turn shard `index` of the memory into the
    model's `bInsert` of its old contents and leave every other shard as it was.
    `hc` (`shard_count` is a `usize`) is needed: without it `index + 1` in `IndexMut` can overflow when
    `shard_len_64 = 0` (`count = 2^64`, `index = 2^64 - 1`, empty data and shard: the source panics, which the `Nat`
    arithmetic of the model does not see) -/
theorem src_insert (f : Flat) (hwf : f.WF) (hs : f.data.size < 288230376151711744)
    (hc : f.count < 18446744073709551616) (index : Nat) (hi : index < f.count)
    (shard : Array Nat) (he : shard.size % 2 = 0) :
    (64 * f.len64 < shard.size → Shards_insert (hdr f) index shard.size = none) ∧
    (shard.size ≤ 64 * f.len64 →
      ∃ cs, Shards_insert (hdr f) index shard.size = some cs ∧
        ∀ j, j < f.count →
          Flat.shard { f with data := applyFromShard f.data shard cs } j =
            if j = index then (f.shard j).map (fun old => bInsert old shard) else f.shard j) := by
  have hs' : f.data.size < 18446744073709551616 := by omega
  have hidx : index + 1 < 18446744073709551616 := by omega
  refine ⟨insert_none f hwf hs' index hi hidx _, fun hn => ⟨_, insert_closed f hwf hs' index hi hidx _ hn, ?_⟩⟩
  have hB := shard_bounds f hwf index hi
  obtain ⟨hsz, hby⟩ := insert_bytes f.data shard (index * f.len64) f.len64 hB hn he
  have hcs : applyFromShard f.data shard ((64 * (index * f.len64), 0, 64 * (shard.size / 64)) ::
        if shard.size % 64 > 0 then
          [(64 * (index * f.len64 + shard.size / 64), 64 * (shard.size / 64), shard.size % 64 / 2),
           (64 * (index * f.len64 + shard.size / 64) + 32, 64 * (shard.size / 64) + shard.size % 64 / 2,
             shard.size % 64 - shard.size % 64 / 2)]
        else []) = applyFromShard f.data shard
        [(64 * (index * f.len64), 0, 64 * (shard.size / 64)),
         (64 * (index * f.len64 + shard.size / 64), 64 * (shard.size / 64), shard.size % 64 / 2),
         (64 * (index * f.len64 + shard.size / 64) + 32, 64 * (shard.size / 64) + shard.size % 64 / 2,
           shard.size % 64 - shard.size % 64 / 2)] := by
    by_cases ht : shard.size % 64 > 0
    · rw [if_pos ht]
    · rw [if_neg ht]
      have h0 : shard.size % 64 = 0 := by omega
      simp only [h0, applyFromShard_cons, applyFromShard_nil]
      rfl
  rw [hcs]
  obtain ⟨hl1, hl2⟩ := local_update f.data _ (bInsert (f.data.extract (index * f.len64) (index * f.len64 + f.len64)) shard)
    (index * f.len64) f.len64 hB hsz (by simp only [bInsert, Array.size_ofFn, Array.size_extract]; omega) hby
  intro j hj
  rw [shard_some f hwf _ hsz j hj, shard_some' f hwf j hj]
  by_cases hji : j = index
  · subst hji
    rw [if_pos rfl, hl1]; rfl
  · rw [if_neg hji, hl2 _ (shard_bounds f hwf j hj) (shard_disjoint _ _ _ hji)]

theorem applyMoves_cons (d : Array Block) (dst src n : Nat) (cs : List Copy) :
    applyMoves d ((dst, src, n) :: cs) =
      applyMoves (writeBytes d dst n (fun j => getByte d (src + j))) cs := rfl

theorem undo_bytes (d : Array Block) (B L sb : Nat) (hB : B + L ≤ d.size) (hsb : sb ≤ 64 * L) :
    (writeBytes d (64 * (B + sb / 64) + sb % 64 / 2) (sb % 64 / 2)
        (fun j => getByte d (64 * (B + sb / 64) + 32 + j))).size = d.size ∧
    ∀ p, getByte (writeBytes d (64 * (B + sb / 64) + sb % 64 / 2) (sb % 64 / 2)
        (fun j => getByte d (64 * (B + sb / 64) + 32 + j))) p =
      if 64 * B ≤ p ∧ p < 64 * (B + L) then getByte (bUndoLast (d.extract B (B + L)) sb) (p - 64 * B)
      else getByte d p := by
  simp only [getByte_writeBytes, size_writeBytes, true_and]
  intro p
  have hsz : (d.extract B (B + L)).size = L := by simp only [Array.size_extract]; omega
  by_cases hin : 64 * B ≤ p ∧ p < 64 * (B + L)
  · rw [if_pos hin]
    obtain ⟨q, rfl⟩ : ∃ q, p = 64 * B + q := ⟨p - 64 * B, by omega⟩
    have hq : q < 64 * L := by omega
    rw [Nat.add_sub_cancel_left, getByte_bUndoLast _ _ _ (by rw [hsz]; exact hq)]
    by_cases hc : sb % 64 ≠ 0 ∧ q / 64 = sb / 64 ∧ sb % 64 / 2 ≤ q % 64 ∧ q % 64 < sb % 64 / 2 + sb % 64 / 2
    · rw [if_pos hc, getByte_extract _ _ _ _ (by omega) (by omega), if_pos (by omega)]
      congr 1; omega
    · rw [if_neg hc, getByte_extract _ _ _ _ (by omega) (by omega), if_neg (by omega)]
  · rw [if_neg hin, if_neg (by omega)]
theorem applyMoves_nil (d : Array Block) : applyMoves d [] = d := rfl

theorem size_bUndoLast (s : Array Block) (sb : Nat) : (bUndoLast s sb).size = s.size := by
  unfold bUndoLast
  dsimp only
  split
  · rfl
  · simp only [Array.size_ofFn]

theorem undo_range (f : Flat) (hwf : f.WF) (sb : Nat) (hsb : sb ≤ 64 * f.len64) (k : Nat) :
    ∀ (a : Nat) (d : Array Block), d.size = f.data.size → (0 < k → a + k ≤ f.count) →
      (applyMoves d ((List.range' a k).map (undoMove f.len64 sb))).size = d.size ∧
      ∀ j, j < f.count →
        (applyMoves d ((List.range' a k).map (undoMove f.len64 sb))).extract (j * f.len64) (j * f.len64 + f.len64) =
          if a ≤ j ∧ j < a + k then bUndoLast (d.extract (j * f.len64) (j * f.len64 + f.len64)) sb
          else d.extract (j * f.len64) (j * f.len64 + f.len64) := by
  induction k with
  | zero =>
    intro a d hd hak
    refine ⟨rfl, fun j hj => ?_⟩
    rw [if_neg (by omega)]; rfl
  | succ k ih =>
    intro a d hd hak
    have hak := hak (by omega)
    have hB : a * f.len64 + f.len64 ≤ d.size := by rw [hd]; exact shard_bounds f hwf a (by omega)
    rw [List.range'_succ, List.map_cons]
    simp only [undoMove, applyMoves_cons]
    obtain ⟨hsz, hby⟩ := undo_bytes d (a * f.len64) f.len64 sb hB hsb
    obtain ⟨hl1, hl2⟩ := local_update d _ (bUndoLast (d.extract (a * f.len64) (a * f.len64 + f.len64)) sb)
      (a * f.len64) f.len64 hB hsz (by rw [size_bUndoLast, Array.size_extract]; omega) hby
    obtain ⟨ih1, ih2⟩ := ih (a + 1) _ (hsz.trans hd) (by omega)
    refine ⟨ih1.trans hsz, fun j hj => ?_⟩
    rw [ih2 j hj]
    by_cases hja : j = a
    · subst hja
      rw [if_neg (by omega), if_pos (by omega), hl1]
    · rw [hl2 _ (by rw [hd]; exact shard_bounds f hwf j hj) (shard_disjoint _ _ _ hja)]
      by_cases hr : a + 1 ≤ j ∧ j < a + 1 + k
      · rw [if_pos hr, if_pos (by omega)]
      · rw [if_neg hr, if_neg (by omega)]

/-- `Shards::undo_last_chunk_encoding(shard_bytes, a..b)` for a shard size that fits (`shard_bytes ≤ 64 *
    shard_len_64`) and a range inside the memory: never panics, and its moves apply the model's `bUndoLast` to
    exactly the shards `a ≤ j < b` -/
theorem src_undo_last_chunk_encoding (f : Flat) (hwf : f.WF) (hs : f.data.size < 288230376151711744)
    (sb a b : Nat) (hb : b ≤ f.count) (hsb : sb ≤ 64 * f.len64) :
    ∃ cs, Shards_undo_last_chunk_encoding (hdr f) sb (a, b) = some cs ∧
      ∀ j, j < f.count →
        Flat.shard { f with data := applyMoves f.data cs } j =
          if a ≤ j ∧ j < b then (f.shard j).map (fun s => bUndoLast s sb) else f.shard j := by
  refine ⟨_, undo_closed f hwf (by omega) sb a b hb hsb, ?_⟩
  intro j hj
  by_cases ht : sb % 64 = 0
  · rw [if_pos ht, applyMoves_nil, shard_some' f hwf j hj]
    have : ∀ s : Array Block, bUndoLast s sb = s := by intro s; unfold bUndoLast; rw [if_pos ht]
    simp only [Option.map_some, this, ite_self]
  · rw [if_neg ht]
    obtain ⟨h1, h2⟩ := undo_range f hwf sb hsb (b - a) a f.data rfl (by omega)
    rw [shard_some f hwf _ h1 j hj, shard_some' f hwf j hj, h2 j hj]
    by_cases hr : a ≤ j ∧ j < b
    · rw [if_pos hr, if_pos (by omega)]; rfl
    · rw [if_neg hr, if_neg (by omega)]

end RS.SrcS
