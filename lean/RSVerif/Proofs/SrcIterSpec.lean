/-
  What the result iterators of the SOURCE do (Gen/SrcIter.lean, regenerated from src/encoder_result.rs and
  src/decoder_result.rs on every run): one `next` of the translated code is one `next` of the model
  (Model/Iter.lean), for every work object, every cursor and every accessor; no usize overflow and the loop fuel
  is never exhausted for the supported shard counts.
-/
import RSVerif.Gen.SrcIter
import RSVerif.Model.Iter
import RSVerif.Proofs.Access

namespace RS.SrcI
open RS RS.RustI

def ofCursor (c : Cursor) : IterS := { ended := c.ended, next_index := c.next }

/-- `Recovery::new` / `RestoredOriginal::new` start at the model's initial cursor -/
theorem src_new_is_initial : Recovery_new = ofCursor {} ∧ RestoredOriginal_new = ofCursor {} := ⟨rfl, rfl⟩

/-- one `Recovery::next` of the source = one `recoveryNext` of the model (any accessor count) -/
theorem src_recovery_next_simulates (w : EncWork) (count : Nat) (c : Cursor) (h : c.next + 1 < 18446744073709551616) :
    Recovery_next count w.recovery (ofCursor c) =
      some ((recoveryNext w c).1, ofCursor (recoveryNext w c).2) := by
  unfold Recovery_next recoveryNext ofCursor
  cases he : c.ended
  · cases hr : w.recovery c.next <;> simp [h]
  · simp [he]

/-- a `while` loop with early return whose body behaves like the search step is the search of the model -/
theorem scan_eq (w : DecWork) (self : IterS)
    (body : (Nat → Option (Option (Nat × Array Nat) × IterS)) → Nat → Option (Option (Nat × Array Nat) × IterS))
    (hbody : ∀ go i, i + 1 < 18446744073709551616 → body go i =
      if i < w.k then
        (match w.restoredOriginal i with
         | some s => some (some (i, s), { self with next_index := i + 1 })
         | none => go (i + 1))
      else some (none, { self with ended := true }))
    (fuel : Nat) :
    ∀ i, w.k ≤ 65536 → w.k - i < fuel → i < 70000 →
    scanFrom fuel body i =
      some (match restoredSearch w (w.k - i) i with
            | some (j, s) => (some (j, s), { self with next_index := j + 1 })
            | none => (none, { self with ended := true })) := by
  induction fuel with
  | zero => intro i _ h; omega
  | succ f ih =>
    intro i hk hf hi
    simp only [scanFrom]
    rw [hbody _ _ (by omega)]
    by_cases hlt : i < w.k
    · have hd : w.k - i = (w.k - (i + 1)) + 1 := by omega
      rw [hd]
      simp only [restoredSearch, hlt, if_true]
      cases hr : w.restoredOriginal i with
      | some s => simp
      | none =>
        simp only
        exact ih (i + 1) hk (by omega) (by omega)
    · have hd : w.k - i = 0 := by omega
      rw [hd]
      simp [restoredSearch, hlt]

/-- a cursor beyond the shard count: the loop ends at once -/
theorem scan_far (w : DecWork) (self : IterS)
    (body : (Nat → Option (Option (Nat × Array Nat) × IterS)) → Nat → Option (Option (Nat × Array Nat) × IterS))
    (hbody : ∀ go i, ¬ i < w.k → body go i = some (none, { self with ended := true }))
    (i : Nat) (hi : ¬ i < w.k) : scanFrom 70000 body i = some (none, { self with ended := true }) := by
  show body _ i = _
  exact hbody _ i hi

/-- one `RestoredOriginal::next` of the source = one `restoredNext` of the model, for every supported
    original count (the loop fuel 70000 is never exhausted, `index + 1` never overflows) -/
theorem src_restored_next_simulates (w : DecWork) (c : Cursor) (hk : w.k ≤ 65536) :
    RestoredOriginal_next w.k w.restoredOriginal (ofCursor c) =
      some ((restoredNext w c).1, ofCursor (restoredNext w c).2) := by
  unfold RestoredOriginal_next restoredNext
  cases he : c.ended
  · have hne : ¬ ((ofCursor c).ended = true) := by simp [ofCursor, he]
    rw [if_neg hne]
    by_cases hc : c.next < w.k
    · rw [scan_eq w (ofCursor c) _ ?_ 70000 _ hk (by omega) (by show c.next < 70000; omega)]
      · simp only [ofCursor, he, Bool.false_eq_true, if_false]
        cases hs : restoredSearch w (w.k - c.next) c.next with
        | none => rfl
        | some p => obtain ⟨j, s⟩ := p; rfl
      · intro go i hi
        simp only [hi, if_true]
        by_cases hlt : i < w.k
        · simp only [hlt, if_true]; cases w.restoredOriginal i <;> rfl
        · simp only [hlt, if_false]
    · rw [scan_far w (ofCursor c) _ ?_ (ofCursor c).next_index hc]
      · have hd : w.k - c.next = 0 := by omega
        simp only [ofCursor, he, Bool.false_eq_true, if_false, hd, restoredSearch]
      · intro go i hlt
        simp only [hlt, if_false]
  · simp [ofCursor, he]

/-- `n` calls of `next` on the translated iterators, collecting the answers (`none` = a call panicked) -/
def takeN {ρ : Type} (next : IterS → Option (Option ρ × IterS)) : Nat → IterS → Option (List (Option ρ))
  | 0, _ => some []
  | n + 1, s => match next s with
    | none => none
    | some (o, s') => (takeN next n s').map (o :: ·)

/-- the cursor of `Recovery` never passes the recovery count (it moves only past a `Some`) -/
theorem recoveryNext_next_le (w : EncWork) (c : Cursor) (h : c.next ≤ w.r) : (recoveryNext w c).2.next ≤ w.r := by
  unfold recoveryNext; split
  · exact h
  · cases hr : w.recovery c.next with
    | none => exact h
    | some s =>
      have : c.next < w.r := (recovery_isSome_iff w c.next).mp (by simp [hr])
      show c.next + 1 ≤ w.r
      omega

/-- ANY number of `Recovery::next` calls on the source = the model's, never a panic -/
theorem src_recovery_take (w : EncWork) (count : Nat) (hr : w.r ≤ 65536) (n : Nat) :
    ∀ c : Cursor, c.next ≤ w.r →
      takeN (Recovery_next count w.recovery) n (ofCursor c) = some (recoveryTake w n c) := by
  induction n with
  | zero => intro c _; rfl
  | succ n ih =>
    intro c h
    simp only [takeN, recoveryTake]
    rw [src_recovery_next_simulates w count c (by omega)]
    simp only
    rw [ih _ (recoveryNext_next_le w c h)]
    rfl

theorem src_restored_take (w : DecWork) (hk : w.k ≤ 65536) (n : Nat) :
    ∀ c : Cursor, takeN (RestoredOriginal_next w.k w.restoredOriginal) n (ofCursor c) = some (restoredTake w n c) := by
  induction n with
  | zero => intro c; rfl
  | succ n ih =>
    intro c
    simp only [takeN, restoredTake]
    rw [src_restored_next_simulates w c hk]
    simp only
    rw [ih _]
    rfl

/-- what `Drop` of the two result objects and the result accessors do in today's source -/
theorem src_drop_and_delegation :
    EncoderResult_drop_calls_reset_received = true ∧ DecoderResult_drop_calls_reset_received = true ∧
    EncoderResult_recovery_delegates = true ∧ DecoderResult_restored_original_delegates = true := ⟨rfl, rfl, rfl, rfl⟩

/-- constructing a result object does nothing but borrow the work object (`Self { work }`) -/
theorem src_result_new : EncoderResult_new_is_the_work = true ∧ DecoderResult_new_is_the_work = true := ⟨rfl, rfl⟩

end RS.SrcI
