/-
  The integer code of the engines AS TRANSLATED FROM TODAY'S SOURCE (Gen/SrcUtils.lean, regenerated from
  src/engine/utils.rs, src/engine/fwht.rs and src/engine/tables.rs on every run: `add_mod`, `sub_mod`, `fwht_2`,
  `fwht_4`, `fwht` — sequential, in place, with its `while` / `step_by` loops and `u16` index arithmetic —,
  `eval_poly`, `tables::mul`, `formal_derivative`) against the model (Model/Engine.lean: pointwise Walsh layers,
  `evalPolyWith`, `formalDerivative`; Model/TableInit.lean: `tmul`): no overflow, no index out of bounds, no
  fuel exhaustion, and the same values, for all inputs in the ranges the types allow.
-/
import RSVerif.Gen.SrcUtils
import RSVerif.Model.Engine
import RSVerif.Model.TableInit
import RSVerif.Proofs.Walsh
import RSVerif.Proofs.SrcUtilsAux

namespace RS.SrcU
open RS RS.RustU

/-- every entry is a `u16` -/
def U16s (a : Array Nat) : Prop := ∀ i, a.getD i 0 < 65536

theorem src_add_mod (x y : Nat) (hx : x < 65536) (hy : y < 65536) : U_add_mod x y = some (addMod x y) :=
  UAux.aux_add_mod x y hx hy

theorem src_sub_mod (x y : Nat) (hx : x < 65536) (hy : y < 65536) : U_sub_mod x y = some (subMod x y) := by
  have _ := hx; have _ := hy
  exact UAux.aux_sub_mod x y

theorem src_fwht_2 (a b : Nat) (ha : a < 65536) (hb : b < 65536) : U_fwht_2 a b = some (addMod a b, subMod a b) :=
  UAux.aux_fwht_2 a b ha hb

/-- the sequential in-place Walsh transform of the source (radix-4 passes at distances 1, 4, …, 16384 over the
    groups that start below `m_truncated`) is the pointwise transform of the model -/
theorem src_fwht (data : Array Nat) (hs : data.size = 65536) (hd : U16s data) (m : Nat) (hm : m ≤ 65536) :
    U_fwht data m = some (fwht data m) :=
  UAux.aux_fwht data hs hd m hm

/-- `utils::eval_poly` with the `LOG_WALSH` table `lw` -/
theorem src_eval_poly (lw er : Array Nat) (hl : lw.size = 65536) (he : er.size = 65536) (hlw : U16s lw)
    (her : U16s er) (t : Nat) (ht : t ≤ 65536) :
    U_eval_poly lw er t = some (evalPolyWith lw er t) :=
  UAux.aux_eval_poly lw er hl he hlw her t ht

/-- `tables::mul(x, log_m, exp, log)` -/
theorem src_mul (exp log : Array Nat) (hE : exp.size = 65536) (hL : log.size = 65536) (hl : U16s log)
    (x logm : Nat) (hx : x < 65536) (hm : logm < 65536) :
    U_mul x logm exp log = some (tmul exp log x logm) :=
  UAux.aux_mul exp log hE hL hl x logm hx hm

/-- `utils::formal_derivative` on `a.size` shards: the `xor_within` calls it makes, applied in order, are the
    model's `formalDerivative` (no `usize` operation overflows or underflows) -/
theorem src_formal_derivative {V : Type} [ShardAlg V] (a : Array V) (hs : a.size ≤ 65536) :
    ∃ calls, U_formal_derivative a.size = some calls ∧
      calls.foldl (fun (b : Array V) (c : Nat × Nat × Nat) => xorWithin b c.1 c.2.1 c.2.2) a = formalDerivative a :=
  UAux.aux_formal_derivative a hs

/-- the delegations of today's source: `xor_within` = `flat2_mut` + `xor`; `fft_skew_end` / `ifft_skew_end` pass
    `skew_delta = pos + size` -/
theorem src_delegations : U_xor_within_delegates = true ∧ U_fft_skew_end_delegates = true ∧
    U_ifft_skew_end_delegates = true := ⟨rfl, rfl, rfl⟩

end RS.SrcU
