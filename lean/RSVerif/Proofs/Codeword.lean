/-
  The codeword polynomial of the systematic Reed–Solomon code of reed-solomon-simd.

  One symbol lane, data `d 0 … d (k-1)`.  Point number `p` is `pt p`.

  * `codeword_low`  (low rate, `m = npow2 k`): there is `F` of degree `< m` whose values at the
    points `0 … k-1` are the originals, at `k … m-1` zero, and at `m + j` the closed-form
    `cauchyLow` recovery symbol.
  * `codeword_high` (high rate, `m = npow2 r`, `n = highDecWorkCount k r`): there is `F` of degree
    `< n - m` whose values at the points `m … m+k-1` are the originals, at `m+k … n-1` zero, and
    at `j < m` the closed-form `cauchyHigh` recovery symbol.
  * `lagrange_big`: Lagrange evaluation on the complement `[2^e, 2^N)` of a subspace.
  * degree bookkeeping for the erasure locator `Π_{u ∈ E} (X - pt u)`.
-/
import RSVerif.Proofs.Lagrange
import RSVerif.Proofs.EnvelopeAux

namespace RS
open Polynomial GF16 Finset

/-! ### interpolation through arbitrary points -/

theorem pt_injOn_finset (s : Finset Nat) (hs : ∀ p ∈ s, p < 65536) :
    Set.InjOn pt (↑s : Set Nat) := by
  intro a ha b hb h
  exact pt_injOn (hs a (mem_coe.1 ha)) (hs b (mem_coe.1 hb)) h

/-- a polynomial of degree `< #s` with prescribed values at the points of `s` -/
theorem exists_interpolant (s : Finset Nat) (hs : ∀ p ∈ s, p < 65536) (v : Nat → GF16) :
    ∃ F : GF16[X], F.degree < ((s.card : Nat) : WithBot Nat) ∧ ∀ p ∈ s, eval (pt p) F = v p :=
  ⟨Lagrange.interpolate s pt v, Lagrange.degree_interpolate_lt _ (pt_injOn_finset s hs),
    fun _ hp => Lagrange.eval_interpolate_at_node _ (pt_injOn_finset s hs) hp⟩

/-- a sum over `range m` whose terms vanish from `k` on -/
theorem sum_range_truncate {k m : Nat} (hkm : k ≤ m) (g : Nat → GF16)
    (hz : ∀ u, k ≤ u → u < m → g u = 0) : ∑ u ∈ range m, g u = ∑ u ∈ range k, g u := by
  rw [← sum_range_add_sum_Ico g hkm, add_eq_left]
  apply sum_eq_zero
  intro u hu
  rw [mem_Ico] at hu
  exact hz u hu.1 hu.2

/-! ### 3. the low-rate codeword polynomial -/

/-- **Low-rate codeword polynomial** (`m = npow2 k`): degree `< m`, originals at `0 … k-1`,
    zero padding at `k … m-1`, closed-form recovery symbols at `m + j`. -/
theorem codeword_low {k r : Nat} (hsup : supportsLow k r = true) (d : Nat → Sym) :
    ∃ F : GF16[X], F.degree < ((npow2 k : Nat) : WithBot Nat) ∧
      (∀ i, i < k → eval (pt i) F = ⟨d i⟩) ∧
      (∀ p, k ≤ p → p < npow2 k → eval (pt p) F = 0) ∧
      (∀ j, npow2 k + j < 65536 →
        eval (pt (npow2 k + j)) F = ⟨xsum k (fun i => gmul (cauchyLow k r j i) (d i))⟩) := by
  have hsup' : 0 < k ∧ 0 < r ∧ k < 65536 ∧ r < 65536 ∧ npow2 k + r ≤ 65536 := by
    simpa only [supportsLow, Bool.and_eq_true, decide_eq_true_eq, gt_iff_lt, and_assoc] using hsup
  obtain ⟨hk0, hr0, hk, hr, hs⟩ := hsup'
  obtain ⟨e, he, hm, hke, _⟩ := npow2_eq_pow (n := k) (by omega)
  rw [hm] at hs ⊢
  obtain ⟨F, hdeg, hval⟩ := exists_interpolant (range (2 ^ e))
    (fun p hp => by have := mem_range.1 hp; omega)
    (fun p => if p < k then (⟨d p⟩ : GF16) else 0)
  rw [card_range] at hdeg
  have ha : ∀ i, i < k → eval (pt i) F = ⟨d i⟩ := by
    intro i hi
    rw [hval i (mem_range.2 (by omega)), if_pos hi]
  have hb : ∀ p, k ≤ p → p < 2 ^ e → eval (pt p) F = 0 := by
    intro p hp hpm
    rw [hval p (mem_range.2 hpm), if_neg (by omega)]
  refine ⟨F, hdeg, ha, hb, ?_⟩
  intro j hj
  rw [lagrange_low he hdeg hj, mk_xsum,
    sum_range_truncate hke _ (fun u hu hum => by rw [hb u hu hum, mul_zero])]
  apply sum_congr rfl
  intro u hu
  rw [ha u (mem_range.1 hu), cauchyLow_eq, hm, mk_mul, mk_mul, mk_ginv, mk_mul, mk_add, mk_wProd,
    mk_ofNat, mk_ofNat, vanishProd_eq, mk_ofNat, ← div_eq_mul_inv]

/-- the geometry of the low-rate work area: `npow2 k = 2^e`, `k ≤ 2^e`, `2^e + r ≤ 65536` -/
theorem low_work_geometry {k r : Nat} (hsup : supportsLow k r = true) :
    ∃ e, e ≤ 16 ∧ npow2 k = 2 ^ e ∧ k ≤ 2 ^ e ∧ 2 ^ e + r ≤ 65536 := by
  have hsup' : 0 < k ∧ 0 < r ∧ k < 65536 ∧ r < 65536 ∧ npow2 k + r ≤ 65536 := by
    simpa only [supportsLow, Bool.and_eq_true, decide_eq_true_eq, gt_iff_lt, and_assoc] using hsup
  obtain ⟨hk0, hr0, hk, hr, hs⟩ := hsup'
  obtain ⟨e, he, hm, hke, _⟩ := npow2_eq_pow (n := k) (by omega)
  exact ⟨e, he, hm, hke, by rw [← hm]; exact hs⟩

/-! ### 4. degree bookkeeping for the erasure locator -/

/-- the erasure locator `Π_{u ∈ E} (X - pt u)` -/
noncomputable def locPoly (E : Finset Nat) : GF16[X] := ∏ u ∈ E, (X - C (pt u))

theorem monic_locPoly (E : Finset Nat) : (locPoly E).Monic :=
  monic_prod_of_monic _ _ (fun u _ => monic_X_sub_C (pt u))

theorem locPoly_ne_zero (E : Finset Nat) : locPoly E ≠ 0 := (monic_locPoly E).ne_zero

theorem natDegree_locPoly (E : Finset Nat) : (locPoly E).natDegree = E.card := by
  unfold locPoly
  rw [natDegree_prod_of_monic _ _ (fun u _ => monic_X_sub_C (pt u))]
  simp

theorem degree_locPoly (E : Finset Nat) : (locPoly E).degree = ((E.card : Nat) : WithBot Nat) := by
  rw [degree_eq_natDegree (locPoly_ne_zero E), natDegree_locPoly]

theorem eval_locPoly (E : Finset Nat) (x : GF16) : eval x (locPoly E) = ∏ u ∈ E, (x - pt u) := by
  unfold locPoly
  rw [eval_prod]
  simp

theorem eval_locPoly_eq_zero {E : Finset Nat} {u : Nat} (hu : u ∈ E) :
    eval (pt u) (locPoly E) = 0 := by
  rw [eval_locPoly]
  exact prod_eq_zero hu (sub_self _)

theorem eval_locPoly_ne_zero {E : Finset Nat} (hE : ∀ u ∈ E, u < 65536) {p : Nat}
    (hp : p < 65536) (hpE : p ∉ E) : eval (pt p) (locPoly E) ≠ 0 := by
  rw [eval_locPoly, prod_ne_zero_iff]
  intro u hu h
  have := pt_injOn hp (hE u hu) (sub_eq_zero.1 h)
  exact hpE (this ▸ hu)

/-- `deg F < a → deg (F · e) < a + #E` -/
theorem degree_mul_locPoly_lt {F : GF16[X]} {a : Nat} (E : Finset Nat)
    (hF : F.degree < (a : WithBot Nat)) :
    (F * locPoly E).degree < ((a + E.card : Nat) : WithBot Nat) := by
  rw [degree_mul, degree_locPoly, Nat.cast_add]
  exact WithBot.add_lt_add_right (WithBot.coe_ne_bot) hF

/-! ### 1. Lagrange evaluation on the complement of a subspace -/

theorem two_pow_lt_two_pow {e N : Nat} (h : e < N) : 2 ^ e < 2 ^ N :=
  Nat.pow_lt_pow_right (by decide) h

/-- `q ↦ q xor j` maps `[2^e, 2^N)` to itself when `j < 2^e` -/
theorem xor_mem_Ico {e N q j : Nat} (heN : e < N) (hj : j < 2 ^ e)
    (hq : q ∈ Ico (2 ^ e) (2 ^ N)) : q ^^^ j ∈ Ico (2 ^ e) (2 ^ N) := by
  rw [mem_Ico] at hq ⊢
  have hjN : j < 2 ^ N := lt_trans hj (two_pow_lt_two_pow heN)
  refine ⟨?_, Nat.xor_lt_two_pow hq.2 hjN⟩
  by_contra hlt
  have h1 : (q ^^^ j) ^^^ j < 2 ^ e := Nat.xor_lt_two_pow (Nat.lt_of_not_le hlt) hj
  rw [Nat.xor_xor_cancel_right] at h1
  omega

/-- `W_n = W_m · Π_{m ≤ q < n} pt q` -/
theorem Wp_split {m n : Nat} (hm : 1 ≤ m) (hmn : m ≤ n) :
    Wp n = Wp m * ∏ q ∈ Ico m n, pt q := by
  unfold Wp
  rw [prod_filter, prod_filter, ← prod_range_mul_prod_Ico _ hmn]
  congr 1
  apply prod_congr rfl
  intro q hq
  rw [mem_Ico] at hq
  rw [if_pos (by omega)]

/-- the nodal polynomial of `[2^e, 2^N)` at a point of the subspace `V_e` -/
theorem eval_nodal_big {e N j : Nat} (heN : e < N) (hj : j < 2 ^ e) :
    eval (pt j) (Lagrange.nodal (Ico (2 ^ e) (2 ^ N)) pt) = ∏ q ∈ Ico (2 ^ e) (2 ^ N), pt q := by
  rw [Lagrange.eval_nodal]
  apply prod_nbij' (fun q => q ^^^ j) (fun q => q ^^^ j)
  · intro q hq; exact xor_mem_Ico heN hj hq
  · intro q hq; exact xor_mem_Ico heN hj hq
  · intro q _; exact Nat.xor_xor_cancel_right q j
  · intro q _; exact Nat.xor_xor_cancel_right q j
  · intro q _
    rw [gf_sub_eq_add, pt_add, Nat.xor_comm]

/-- the barycentric weight of the node `p` of `[2^e, 2^N)` is `s_e(p) / W_n` -/
theorem nodalWeight_big {e N p : Nat} (heN : e < N) (hN : N ≤ 16)
    (hp : p ∈ Ico (2 ^ e) (2 ^ N)) :
    Lagrange.nodalWeight (Ico (2 ^ e) (2 ^ N)) pt p = eval (pt p) (S e) / Wp (2 ^ N) := by
  rw [mem_Ico] at hp
  have hn := two_pow_le_65536 hN
  have hmn : 2 ^ e ≤ 2 ^ N := (two_pow_lt_two_pow heN).le
  have hfun : (fun u => pt (0 + u)) = pt := by funext u; rw [zero_add]
  have hall := nodalWeight_coset (e := N) (δ := 0) (u := p) (dvd_zero _) hp.2
  rw [hfun] at hall
  have hS : eval (pt p) (S e) ≠ 0 := by
    rw [eval_S_prod, prod_ne_zero_iff]
    intro v hv h
    have := pt_injOn (by omega) (by have := mem_range.1 hv; omega) (sub_eq_zero.1 h)
    have := mem_range.1 hv
    omega
  have hsplit : Lagrange.nodalWeight (range (2 ^ N)) pt p =
      (eval (pt p) (S e))⁻¹ * Lagrange.nodalWeight (Ico (2 ^ e) (2 ^ N)) pt p := by
    unfold Lagrange.nodalWeight
    rw [← filter_ne' (range (2 ^ N)) p, ← filter_ne' (Ico (2 ^ e) (2 ^ N)) p, prod_filter,
      prod_filter, ← prod_range_mul_prod_Ico _ hmn, eval_S_prod, ← prod_inv_distrib]
    congr 1
    apply prod_congr rfl
    intro v hv
    have := mem_range.1 hv
    rw [if_pos (by omega)]
  rw [hall] at hsplit
  rw [div_eq_mul_inv, hsplit, ← mul_assoc, mul_inv_cancel₀ hS, one_mul]

/-- **Lagrange evaluation on the complement of a subspace.**  Nodes `pt p`, `p ∈ [2^e, 2^N)`;
    evaluation at `pt j`, `j < 2^e`. -/
theorem lagrange_big {e N : Nat} (heN : e < N) (hN : N ≤ 16) {f : GF16[X]}
    (hf : f.degree < ((2 ^ N - 2 ^ e : Nat) : WithBot Nat)) {j : Nat} (hj : j < 2 ^ e) :
    eval (pt j) f = ∑ p ∈ Ico (2 ^ e) (2 ^ N),
      eval (pt p) (S e) / (Wp (2 ^ e) * (pt j + pt p)) * eval (pt p) f := by
  have hn := two_pow_le_65536 hN
  have hmn : 2 ^ e ≤ 2 ^ N := (two_pow_lt_two_pow heN).le
  have hinj : Set.InjOn pt (↑(Ico (2 ^ e) (2 ^ N)) : Set Nat) :=
    pt_injOn_finset _ (fun p hp => by have := mem_Ico.1 hp; omega)
  have hf' : f.degree < (((Ico (2 ^ e) (2 ^ N)).card : Nat) : WithBot Nat) := by
    rw [Nat.card_Ico]; exact hf
  have hx : ∀ p ∈ Ico (2 ^ e) (2 ^ N), pt j ≠ pt p := by
    intro p hp h
    have := mem_Ico.1 hp
    have := pt_injOn (by omega) (by omega) h
    omega
  have h := Lagrange.eq_interpolate hinj hf'
  conv_lhs => rw [h]
  rw [Lagrange.eval_interpolate_not_at_node _ hx, eval_nodal_big heN hj, mul_sum]
  have hW := Wp_split (Nat.one_le_two_pow (n := e)) hmn
  have hWn : Wp (2 ^ N) ≠ 0 := Wp_ne_zero hn
  have hWm : Wp (2 ^ e) ≠ 0 := Wp_ne_zero (by omega)
  have hP : (∏ q ∈ Ico (2 ^ e) (2 ^ N), pt q) ≠ 0 := by
    intro h0; rw [h0, mul_zero] at hW; exact hWn hW
  apply sum_congr rfl
  intro p hp
  rw [nodalWeight_big heN hN hp, gf_sub_eq_add, hW]
  field_simp

/-! ### 2. the high-rate codeword polynomial -/

/-- the geometry of the high-rate work area: `npow2 r = 2^e`, `highDecWorkCount k r = 2^N`,
    `e < N ≤ 16`, `r ≤ 2^e`, `2^e + k ≤ 2^N` -/
theorem high_work_geometry {k r : Nat} (hsup : supportsHigh k r = true) :
    ∃ e N, e < N ∧ N ≤ 16 ∧ npow2 r = 2 ^ e ∧ highDecWorkCount k r = 2 ^ N ∧ r ≤ 2 ^ e ∧
      2 ^ e + k ≤ 2 ^ N := by
  have hsup' : 0 < k ∧ 0 < r ∧ k < 65536 ∧ r < 65536 ∧ npow2 r + k ≤ 65536 := by
    simpa only [supportsHigh, Bool.and_eq_true, decide_eq_true_eq, gt_iff_lt, and_assoc] using hsup
  obtain ⟨hk0, hr0, hk, hr, hs⟩ := hsup'
  obtain ⟨e, he, hm, hre, _⟩ := npow2_eq_pow (n := r) (by omega)
  obtain ⟨N, hN, hn, hle, _⟩ := npow2_eq_pow hs
  refine ⟨e, N, ?_, hN, hm, hn, hre, by rw [← hm]; exact hle⟩
  have hlt : 2 ^ e < 2 ^ N := by rw [hm] at hle; omega
  exact (Nat.pow_lt_pow_iff_right (by decide)).1 hlt

/-- **High-rate codeword polynomial** (`m = npow2 r`, `n = highDecWorkCount k r`): degree
    `< n - m`, originals at `m … m+k-1`, zero padding at `m+k … n-1`, closed-form recovery
    symbols at `j < m` (in particular `j < r`). -/
theorem codeword_high {k r : Nat} (hsup : supportsHigh k r = true) (d : Nat → Sym) :
    ∃ F : GF16[X],
      F.degree < ((highDecWorkCount k r - npow2 r : Nat) : WithBot Nat) ∧
      (∀ i, i < k → eval (pt (npow2 r + i)) F = ⟨d i⟩) ∧
      (∀ p, npow2 r + k ≤ p → p < highDecWorkCount k r → eval (pt p) F = 0) ∧
      (∀ j, j < npow2 r →
        eval (pt j) F = ⟨xsum k (fun i => gmul (cauchyHigh k r j i) (d i))⟩) := by
  obtain ⟨e, N, heN, hN, hm, hn, hre, hmk⟩ := high_work_geometry hsup
  rw [hm, hn]
  have hn16 := two_pow_le_65536 hN
  obtain ⟨F, hdeg, hval⟩ := exists_interpolant (Ico (2 ^ e) (2 ^ N))
    (fun p hp => by have := mem_Ico.1 hp; omega)
    (fun p => if p < 2 ^ e + k then (⟨d (p - 2 ^ e)⟩ : GF16) else 0)
  rw [Nat.card_Ico] at hdeg
  have ha : ∀ i, i < k → eval (pt (2 ^ e + i)) F = ⟨d i⟩ := by
    intro i hi
    rw [hval _ (mem_Ico.2 ⟨by omega, by omega⟩), if_pos (by omega), Nat.add_sub_cancel_left]
  have hb : ∀ p, 2 ^ e + k ≤ p → p < 2 ^ N → eval (pt p) F = 0 := by
    intro p hp hpn
    rw [hval p (mem_Ico.2 ⟨by omega, hpn⟩), if_neg (by omega)]
  refine ⟨F, hdeg, ha, hb, ?_⟩
  intro j hj
  have hkm : k ≤ 2 ^ N - 2 ^ e := by omega
  rw [lagrange_big heN hN hdeg hj, mk_xsum, sum_Ico_eq_sum_range,
    sum_range_truncate hkm _
      (fun u hu hum => by rw [hb (2 ^ e + u) (by omega) (by omega), mul_zero])]
  apply sum_congr rfl
  intro u hu
  rw [ha u (mem_range.1 hu), cauchyHigh_eq, hm, mk_mul, mk_mul, mk_ginv, mk_mul, mk_add, mk_wProd,
    mk_ofNat, mk_ofNat, vanishProd_eq, mk_ofNat, ← div_eq_mul_inv]

end RS

#print axioms RS.codeword_low
#print axioms RS.low_work_geometry
#print axioms RS.monic_locPoly
#print axioms RS.natDegree_locPoly
#print axioms RS.degree_mul_locPoly_lt
#print axioms RS.lagrange_big
#print axioms RS.high_work_geometry
#print axioms RS.codeword_high
