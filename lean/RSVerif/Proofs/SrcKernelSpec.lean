/-
  The per-chunk kernels of the SOURCE (Gen/SrcKernel.lean, regenerated from engine_ssse3.rs, engine_avx2.rs,
  engine_neon.rs, engine_nosimd.rs and utils.rs on every run) are the kernel models of Model/SimdBlock.lean, for
  every table contents (`mulf`), every block and every list of blocks — so everything proved about those models
  (Proofs/SimdBlockSpec.lean: all four families compute the field butterfly on all 32 symbols of a block, byte for
  byte the same) holds for what the source says today.
-/
import RSVerif.Gen.SrcKernel
import RSVerif.Proofs.SimdBlockSpec

namespace RS.SrcK
open RS RS.RustK

variable (mulf : Sym → Sym)

/-! ### Ssse3 -/
theorem ssse3_mul_128 (a b : V128) : Ssse3_mul_128 (lutLo mulf) (lutHi mulf) a b = mul128 mulf a b := rfl
theorem ssse3_muladd_128 (a b c d : V128) :
    Ssse3_muladd_128 (lutLo mulf) (lutHi mulf) a b c d = muladd128 mulf a b c d := rfl
theorem ssse3_mul_ssse3 (x : List Block) :
    Ssse3_mul_ssse3 (lutLo mulf) (lutHi mulf) x = x.map (ssse3MulBlock mulf) := rfl
theorem ssse3_mul (x : List Block) : Ssse3_mul (lutLo mulf) (lutHi mulf) x = x.map (ssse3MulBlock mulf) := rfl
theorem ssse3_fftb (x y : Block) : Ssse3_fftb_128 (lutLo mulf) (lutHi mulf) x y = ssse3Fftb mulf x y := rfl
theorem ssse3_ifftb (x y : Block) : Ssse3_ifftb_128 (lutLo mulf) (lutHi mulf) x y = ssse3Ifftb mulf x y := rfl
theorem ssse3_fft_partial (x y : List Block) :
    Ssse3_fft_butterfly_partial (lutLo mulf) (lutHi mulf) x y = zipUpd2 (ssse3Fftb mulf) x y := rfl
theorem ssse3_ifft_partial (x y : List Block) :
    Ssse3_ifft_butterfly_partial (lutLo mulf) (lutHi mulf) x y = zipUpd2 (ssse3Ifftb mulf) x y := rfl

/-! ### Avx2 -/
theorem avx2_from :
    Avx2_from (lutLo mulf) (lutHi mulf) =
      { t0_lo := lutLo256 mulf 0, t1_lo := lutLo256 mulf 1, t2_lo := lutLo256 mulf 2, t3_lo := lutLo256 mulf 3,
        t0_hi := lutHi256 mulf 0, t1_hi := lutHi256 mulf 1, t2_hi := lutHi256 mulf 2, t3_hi := lutHi256 mulf 3 } := rfl
theorem avx2_mul_256 (a b : V256) : Avx2_mul_256 a b (Avx2_from (lutLo mulf) (lutHi mulf)) = mul256 mulf a b := rfl
theorem avx2_muladd_256 (a b c d : V256) :
    Avx2_muladd_256 a b c d (Avx2_from (lutLo mulf) (lutHi mulf)) = muladd256 mulf a b c d := rfl
theorem avx2_mul_avx2 (x : List Block) :
    Avx2_mul_avx2 (lutLo mulf) (lutHi mulf) x = x.map (avx2MulBlock mulf) := rfl
theorem avx2_mul (x : List Block) : Avx2_mul (lutLo mulf) (lutHi mulf) x = x.map (avx2MulBlock mulf) := rfl
theorem avx2_fftb (x y : Block) : Avx2_fftb_256 x y (Avx2_from (lutLo mulf) (lutHi mulf)) = avx2Fftb mulf x y := rfl
theorem avx2_ifftb (x y : Block) : Avx2_ifftb_256 x y (Avx2_from (lutLo mulf) (lutHi mulf)) = avx2Ifftb mulf x y := rfl
theorem avx2_fft_partial (x y : List Block) :
    Avx2_fft_butterfly_partial (lutLo mulf) (lutHi mulf) x y = zipUpd2 (avx2Fftb mulf) x y := rfl
theorem avx2_ifft_partial (x y : List Block) :
    Avx2_ifft_butterfly_partial (lutLo mulf) (lutHi mulf) x y = zipUpd2 (avx2Ifftb mulf) x y := rfl

/-! ### Neon -/
theorem neon_mul_128 (a b : V128) : Neon_mul_128 (lutLo mulf) (lutHi mulf) a b = neonMul128 mulf a b := rfl
theorem neon_muladd_128 (a b c d : V128) :
    Neon_muladd_128 (lutLo mulf) (lutHi mulf) a b c d = neonMuladd128 mulf a b c d := rfl
theorem neon_mul_neon (x : List Block) :
    Neon_mul_neon (lutLo mulf) (lutHi mulf) x = x.map (neonMulBlock mulf) := rfl
theorem neon_mul (x : List Block) : Neon_mul (lutLo mulf) (lutHi mulf) x = x.map (neonMulBlock mulf) := rfl
theorem neon_fftb (x y : Block) : Neon_fftb_128 (lutLo mulf) (lutHi mulf) x y = neonFftb mulf x y := rfl
theorem neon_ifftb (x y : Block) : Neon_ifftb_128 (lutLo mulf) (lutHi mulf) x y = neonIfftb mulf x y := rfl
theorem neon_fft_partial (x y : List Block) :
    Neon_fft_butterfly_partial (lutLo mulf) (lutHi mulf) x y = zipUpd2 (neonFftb mulf) x y := rfl
theorem neon_ifft_partial (x y : List Block) :
    Neon_ifft_butterfly_partial (lutLo mulf) (lutHi mulf) x y = zipUpd2 (neonIfftb mulf) x y := rfl

/-! ### utils::xor and NoSimd -/
theorem utils_xor (x y : List Block) : Utils_xor x y = zipUpd1 blockXor x y := rfl
theorem nosimd_mul (x : List Block) : NoSimd_mul (lut16 mulf) x = x.map (nosimdMulBlock mulf) := rfl
theorem nosimd_mul_add (x y : List Block) :
    NoSimd_mul_add (lut16 mulf) x y = zipUpd1 (nosimdMulAdd mulf) x y := rfl

/-- two passes over the chunk lists (`mul_add` then `xor`) = one pass with the pair kernel -/
theorem zipUpd1_then (f g : Block → Block → Block) (x y : List Block) :
    (zipUpd1 f x y, zipUpd1 g y (zipUpd1 f x y)) = zipUpd2 (fun a b => (f a b, g b (f a b))) x y := by
  induction x generalizing y with
  | nil => cases y <;> simp [zipUpd1, zipUpd2]
  | cons a as ih =>
    cases y with
    | nil => simp [zipUpd1, zipUpd2]
    | cons b bs =>
      simp only [zipUpd1, zipUpd2]
      rw [← ih bs]

theorem zipUpd1_first (f g : Block → Block → Block) (x y : List Block) :
    (zipUpd1 f x (zipUpd1 g y x), zipUpd1 g y x) = zipUpd2 (fun a b => (f a (g b a), g b a)) x y := by
  induction x generalizing y with
  | nil => cases y <;> simp [zipUpd1, zipUpd2]
  | cons a as ih =>
    cases y with
    | nil => simp [zipUpd1, zipUpd2]
    | cons b bs =>
      simp only [zipUpd1, zipUpd2]
      rw [← ih bs]

theorem nosimd_fft_partial (x y : List Block) :
    NoSimd_fft_butterfly_partial (lut16 mulf) x y = zipUpd2 (nosimdFftb mulf) x y := by
  show (zipUpd1 (nosimdMulAdd mulf) x y, zipUpd1 blockXor y (zipUpd1 (nosimdMulAdd mulf) x y)) = _
  rw [zipUpd1_then]; rfl

theorem nosimd_ifft_partial (x y : List Block) :
    NoSimd_ifft_butterfly_partial (lut16 mulf) x y = zipUpd2 (nosimdIfftb mulf) x y := by
  show (zipUpd1 (nosimdMulAdd mulf) x (zipUpd1 blockXor y x), zipUpd1 blockXor y x) = _
  rw [zipUpd1_first]; rfl

/-! ### Naive (the exp / log kernel applied symbol by symbol) -/

/-- `GfElement::from(lo) | (GfElement::from(hi) << 8)` is the symbol made of the two bytes -/
theorem join16 (lo hi : Byte) : (lo.setWidth 16 ||| (hi.setWidth 16 <<< 8)) = joinBytes lo hi := by
  apply BitVec.eq_of_toNat_eq
  rw [joinBytes_toNat]
  have hl := lo.isLt
  have hh := hi.isLt
  rw [BitVec.toNat_or, BitVec.toNat_shiftLeft, BitVec.toNat_setWidth, BitVec.toNat_setWidth]
  have e1 : lo.toNat % 2 ^ 16 = lo.toNat := Nat.mod_eq_of_lt (by omega)
  have e2 : hi.toNat % 2 ^ 16 = hi.toNat := Nat.mod_eq_of_lt (by omega)
  rw [e1, e2, Nat.shiftLeft_eq]
  have e3 : hi.toNat * 2 ^ 8 % 2 ^ 16 = hi.toNat * 2 ^ 8 := Nat.mod_eq_of_lt (by omega)
  rw [e3]
  have : hi.toNat * 2 ^ 8 = 2 ^ 8 * hi.toNat := Nat.mul_comm _ _
  rw [this, Nat.or_comm, ← Nat.two_pow_add_eq_or_of_lt (by omega : lo.toNat < 2 ^ 8)]
  omega

/-- `Naive::mul` on one chunk -/
theorem naive_mul_block (mulf : Sym → Sym) (b : Block) :
    (List.range 32).foldl (fun (chunk : Block) (i : Nat) =>
      let lo_1 := (chunk.toArray.getD i 0#8).setWidth 16
      let hi_1 := (chunk.toArray.getD (i + 32) 0#8).setWidth 16
      let prod_1 := mulf (lo_1 ||| (hi_1 <<< 8))
      let chunk_1 := chunk.setIfInBounds i (prod_1.setWidth 8)
      let chunk_2 := chunk_1.setIfInBounds (i + 32) ((prod_1 >>> 8).setWidth 8)
      chunk_2) b = specMulBlock mulf b := by
  apply fold_range32
  intro k c hk hc j hj
  have ck : c.toArray.getD k 0#8 = b.toArray.getD k 0#8 := by
    rw [hc k (by omega), if_neg (by omega)]
  have ck32 : c.toArray.getD (k + 32) 0#8 = b.toArray.getD (k + 32) 0#8 := by
    rw [hc (k + 32) (by omega), if_neg (by omega)]
  simp only []
  rw [vget_set _ _ _ _ hj, vget_set _ _ _ _ hj, ck, ck32, join16, setWidth8_hi, setWidth8_lo]
  by_cases h1 : k + 32 = j
  · subst h1
    rw [if_pos rfl, if_pos (by omega)]
    exact (specMulBlock_hi mulf b ⟨k, hk⟩).symm
  · rw [if_neg h1]
    by_cases h2 : k = j
    · subst h2
      rw [if_pos rfl, if_pos (by omega)]
      exact (specMulBlock_lo mulf b ⟨k, hk⟩).symm
    · rw [if_neg h2, hc j hj]
      by_cases h3 : j % 32 < k
      · rw [if_pos h3, if_pos (by omega)]
      · rw [if_neg h3, if_neg (by omega)]

/-- `Naive::mul_add` on one chunk pair: `x ^= y·m` -/
theorem naive_mul_add_block (mulf : Sym → Sym) (x y : Block) :
    (List.range 32).foldl (fun (x_chunk : Block) (i : Nat) =>
      let lo_1 := (y.toArray.getD i 0#8).setWidth 16
      let hi_1 := (y.toArray.getD (i + 32) 0#8).setWidth 16
      let prod_1 := mulf (lo_1 ||| (hi_1 <<< 8))
      let x_chunk_1 := x_chunk.setIfInBounds i (x_chunk.toArray.getD i 0#8 ^^^ prod_1.setWidth 8)
      let x_chunk_2 := x_chunk_1.setIfInBounds (i + 32) (x_chunk_1.toArray.getD (i + 32) 0#8 ^^^ (prod_1 >>> 8).setWidth 8)
      x_chunk_2) x = blockXor x (specMulBlock mulf y) := by
  apply fold_range32
  intro k c hk hc j hj
  have ck : c.toArray.getD k 0#8 = x.toArray.getD k 0#8 := by
    rw [hc k (by omega), if_neg (by omega)]
  have ck32 : c.toArray.getD (k + 32) 0#8 = x.toArray.getD (k + 32) 0#8 := by
    rw [hc (k + 32) (by omega), if_neg (by omega)]
  simp only []
  have hne : ¬ k = k + 32 := by omega
  rw [vget_set _ _ _ _ hj, vget_set _ _ _ _ hj, vget_set _ _ _ (k + 32) (by omega),
    if_neg hne, ck, ck32, join16, setWidth8_hi, setWidth8_lo]
  by_cases h1 : k + 32 = j
  · subst h1
    rw [if_pos rfl, if_pos (by omega), blockXor_getD _ _ _ hj]
    exact congrArg _ (specMulBlock_hi mulf y ⟨k, hk⟩).symm
  · rw [if_neg h1]
    by_cases h2 : k = j
    · subst h2
      rw [if_pos rfl, if_pos (by omega), blockXor_getD _ _ _ hj]
      exact congrArg _ (specMulBlock_lo mulf y ⟨k, hk⟩).symm
    · rw [if_neg h2, hc j hj]
      by_cases h3 : j % 32 < k
      · rw [if_pos h3, if_pos (by omega)]
      · rw [if_neg h3, if_neg (by omega)]

theorem naive_mul (mulf : Sym → Sym) (x : List Block) : Naive_mul mulf x = x.map (specMulBlock mulf) := by
  unfold Naive_mul
  exact List.map_congr_left fun b _ => naive_mul_block mulf b

theorem naive_mul_add (mulf : Sym → Sym) (x y : List Block) :
    Naive_mul_add mulf x y = zipUpd1 (fun a b => blockXor a (specMulBlock mulf b)) x y := by
  unfold Naive_mul_add
  have h : (fun (x_chunk y_chunk : Block) =>
      (List.range 32).foldl (fun (x_chunk : Block) (i : Nat) =>
        let lo_1 := (y_chunk.toArray.getD i 0#8).setWidth 16
        let hi_1 := (y_chunk.toArray.getD (i + 32) 0#8).setWidth 16
        let prod_1 := mulf (lo_1 ||| (hi_1 <<< 8))
        let x_chunk_1 := x_chunk.setIfInBounds i (x_chunk.toArray.getD i 0#8 ^^^ prod_1.setWidth 8)
        let x_chunk_2 := x_chunk_1.setIfInBounds (i + 32) (x_chunk_1.toArray.getD (i + 32) 0#8 ^^^ (prod_1 >>> 8).setWidth 8)
        x_chunk_2) x_chunk) = fun a b => blockXor a (specMulBlock mulf b) :=
    funext fun a => funext fun b => naive_mul_add_block mulf a b
  exact congrArg (fun f => zipUpd1 f x y) h

end RS.SrcK
