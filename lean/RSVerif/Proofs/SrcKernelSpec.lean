/-
  The per-chunk kernels of the SOURCE (Gen/SrcKernel.lean, regenerated from engine_ssse3.rs, engine_avx2.rs,
  engine_neon.rs, engine_nosimd.rs and utils.rs on every run) are the kernel models of Model/SimdBlock.lean, for
  every table contents (`mulf`), every block and every list of blocks — so everything proved about those models
  (Proofs/SimdBlockSpec.lean: all four families compute the field butterfly on all 32 symbols of a block, byte for
  byte the same) holds for what the source says today.
-/
import RSVerif.Gen.SrcKernel

namespace RS.SrcK
open RS RS.RustK

variable (mulf : Sym → Sym)

/-! ### Ssse3 -/
theorem ssse3_mul_128 (a b : V128) : Ssse3_mul_128 (lutLo mulf) (lutHi mulf) a b = mul128 mulf a b := rfl
theorem ssse3_muladd_128 (a b c d : V128) :
    Ssse3_muladd_128 (lutLo mulf) (lutHi mulf) a b c d = muladd128 mulf a b c d := rfl
theorem ssse3_mul_ssse3 (x : List Block) :
    Ssse3_mul_ssse3 (lutLo mulf) (lutHi mulf) x = x.map (ssse3MulBlock mulf) := rfl
theorem ssse3_mul (x : List Block) : Ssse3_mul (lutLo mulf) (lutHi mulf) x = x.map (ssse3MulBlock mulf) := rfl
theorem ssse3_fftb (x y : Block) : Ssse3_fftb_128 (lutLo mulf) (lutHi mulf) x y = ssse3Fftb mulf x y := rfl
theorem ssse3_ifftb (x y : Block) : Ssse3_ifftb_128 (lutLo mulf) (lutHi mulf) x y = ssse3Ifftb mulf x y := rfl
theorem ssse3_fft_partial (x y : List Block) :
    Ssse3_fft_butterfly_partial (lutLo mulf) (lutHi mulf) x y = zipUpd2 (ssse3Fftb mulf) x y := rfl
theorem ssse3_ifft_partial (x y : List Block) :
    Ssse3_ifft_butterfly_partial (lutLo mulf) (lutHi mulf) x y = zipUpd2 (ssse3Ifftb mulf) x y := rfl

/-! ### Avx2 -/
theorem avx2_from :
    Avx2_from (lutLo mulf) (lutHi mulf) =
      { t0_lo := lutLo256 mulf 0, t1_lo := lutLo256 mulf 1, t2_lo := lutLo256 mulf 2, t3_lo := lutLo256 mulf 3,
        t0_hi := lutHi256 mulf 0, t1_hi := lutHi256 mulf 1, t2_hi := lutHi256 mulf 2, t3_hi := lutHi256 mulf 3 } := rfl
theorem avx2_mul_256 (a b : V256) : Avx2_mul_256 a b (Avx2_from (lutLo mulf) (lutHi mulf)) = mul256 mulf a b := rfl
theorem avx2_muladd_256 (a b c d : V256) :
    Avx2_muladd_256 a b c d (Avx2_from (lutLo mulf) (lutHi mulf)) = muladd256 mulf a b c d := rfl
theorem avx2_mul_avx2 (x : List Block) :
    Avx2_mul_avx2 (lutLo mulf) (lutHi mulf) x = x.map (avx2MulBlock mulf) := rfl
theorem avx2_mul (x : List Block) : Avx2_mul (lutLo mulf) (lutHi mulf) x = x.map (avx2MulBlock mulf) := rfl
theorem avx2_fftb (x y : Block) : Avx2_fftb_256 x y (Avx2_from (lutLo mulf) (lutHi mulf)) = avx2Fftb mulf x y := rfl
theorem avx2_ifftb (x y : Block) : Avx2_ifftb_256 x y (Avx2_from (lutLo mulf) (lutHi mulf)) = avx2Ifftb mulf x y := rfl
theorem avx2_fft_partial (x y : List Block) :
    Avx2_fft_butterfly_partial (lutLo mulf) (lutHi mulf) x y = zipUpd2 (avx2Fftb mulf) x y := rfl
theorem avx2_ifft_partial (x y : List Block) :
    Avx2_ifft_butterfly_partial (lutLo mulf) (lutHi mulf) x y = zipUpd2 (avx2Ifftb mulf) x y := rfl

/-! ### Neon -/
theorem neon_mul_128 (a b : V128) : Neon_mul_128 (lutLo mulf) (lutHi mulf) a b = neonMul128 mulf a b := rfl
theorem neon_muladd_128 (a b c d : V128) :
    Neon_muladd_128 (lutLo mulf) (lutHi mulf) a b c d = neonMuladd128 mulf a b c d := rfl
theorem neon_mul_neon (x : List Block) :
    Neon_mul_neon (lutLo mulf) (lutHi mulf) x = x.map (neonMulBlock mulf) := rfl
theorem neon_mul (x : List Block) : Neon_mul (lutLo mulf) (lutHi mulf) x = x.map (neonMulBlock mulf) := rfl
theorem neon_fftb (x y : Block) : Neon_fftb_128 (lutLo mulf) (lutHi mulf) x y = neonFftb mulf x y := rfl
theorem neon_ifftb (x y : Block) : Neon_ifftb_128 (lutLo mulf) (lutHi mulf) x y = neonIfftb mulf x y := rfl
theorem neon_fft_partial (x y : List Block) :
    Neon_fft_butterfly_partial (lutLo mulf) (lutHi mulf) x y = zipUpd2 (neonFftb mulf) x y := rfl
theorem neon_ifft_partial (x y : List Block) :
    Neon_ifft_butterfly_partial (lutLo mulf) (lutHi mulf) x y = zipUpd2 (neonIfftb mulf) x y := rfl

/-! ### utils::xor and NoSimd -/
theorem utils_xor (x y : List Block) : Utils_xor x y = zipUpd1 blockXor x y := rfl
theorem nosimd_mul (x : List Block) : NoSimd_mul (lut16 mulf) x = x.map (nosimdMulBlock mulf) := rfl
theorem nosimd_mul_add (x y : List Block) :
    NoSimd_mul_add (lut16 mulf) x y = zipUpd1 (nosimdMulAdd mulf) x y := rfl

/-- two passes over the chunk lists (`mul_add` then `xor`) = one pass with the pair kernel -/
theorem zipUpd1_then (f g : Block → Block → Block) (x y : List Block) :
    (zipUpd1 f x y, zipUpd1 g y (zipUpd1 f x y)) = zipUpd2 (fun a b => (f a b, g b (f a b))) x y := by
  induction x generalizing y with
  | nil => cases y <;> simp [zipUpd1, zipUpd2]
  | cons a as ih =>
    cases y with
    | nil => simp [zipUpd1, zipUpd2]
    | cons b bs =>
      simp only [zipUpd1, zipUpd2]
      rw [← ih bs]

theorem zipUpd1_first (f g : Block → Block → Block) (x y : List Block) :
    (zipUpd1 f x (zipUpd1 g y x), zipUpd1 g y x) = zipUpd2 (fun a b => (f a (g b a), g b a)) x y := by
  induction x generalizing y with
  | nil => cases y <;> simp [zipUpd1, zipUpd2]
  | cons a as ih =>
    cases y with
    | nil => simp [zipUpd1, zipUpd2]
    | cons b bs =>
      simp only [zipUpd1, zipUpd2]
      rw [← ih bs]

theorem nosimd_fft_partial (x y : List Block) :
    NoSimd_fft_butterfly_partial (lut16 mulf) x y = zipUpd2 (nosimdFftb mulf) x y := by
  show (zipUpd1 (nosimdMulAdd mulf) x y, zipUpd1 blockXor y (zipUpd1 (nosimdMulAdd mulf) x y)) = _
  rw [zipUpd1_then]; rfl

theorem nosimd_ifft_partial (x y : List Block) :
    NoSimd_ifft_butterfly_partial (lut16 mulf) x y = zipUpd2 (nosimdIfftb mulf) x y := by
  show (zipUpd1 (nosimdMulAdd mulf) x (zipUpd1 blockXor y x), zipUpd1 blockXor y x) = _
  rw [zipUpd1_first]; rfl

end RS.SrcK
