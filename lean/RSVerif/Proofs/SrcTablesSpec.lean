/-
  The table initialisers AS TRANSLATED FROM TODAY'S SOURCE (Gen/SrcUtils.lean, regenerated from
  src/engine/tables.rs on every run: `initialize_exp_log`, `initialize_log_walsh`, `initialize_skew` with all their
  loops, shifts, xors and index arithmetic, and the constants `GF_POLYNOMIAL`, `CANTOR_BASIS` of src/engine.rs)
  against the hand-written transliterations of Model/TableInit.lean, which Proofs/TableInitSpec.lean proves to
  produce the characterised tables (`exp[i] = phi(x^i)`, `log` its inverse, `skew[i] = log(skewElem i)`, …):
  no index out of bounds, no overflow / underflow, no fuel exhaustion, and the same arrays.
-/
import RSVerif.Gen.SrcUtils
import RSVerif.Model.Engine
import RSVerif.Model.TableInit
import RSVerif.Proofs.Walsh
import RSVerif.Proofs.SrcTablesAux

namespace RS.SrcU
open RS RS.RustU

/-- every entry is a `u16` (same as `U16s` of SrcUtilsSpec.lean, restated here to keep the files independent) -/
def U16t (a : Array Nat) : Prop := ∀ i, a.getD i 0 < 65536

/-- the constants of the source are the constants of the model -/
theorem src_cantor_basis : CANTOR_BASIS = (cantorBasis.map (·.toNat)).toArray :=
  SrcT.cantor_basis_eq

/-- `initialize_exp_log` of the source = `initExpLog` of the model (a closed statement: no inputs) -/
theorem src_initialize_exp_log : U_initialize_exp_log = some initExpLog :=
  SrcT.exp_log_src

/-- `initialize_log_walsh`, given that the translated `fwht` is the model's (proved in SrcUtilsSpec.lean) -/
theorem src_initialize_log_walsh_of (log : Array Nat) (hs : log.size = 65536) (hl : U16t log)
    (hf : ∀ d : Array Nat, d.size = 65536 → (∀ i, d.getD i 0 < 65536) → U_fwht d 65536 = some (fwht d 65536)) :
    U_initialize_log_walsh log = some (initLogWalsh log) := by
  unfold U_initialize_log_walsh initLogWalsh
  simp only [Array.size_replicate, hs, if_true, SrcT.bind_some', Nat.zero_lt_succ, Array.set!_eq_setIfInBounds]
  rw [hf _ (by rw [Array.size_setIfInBounds, hs]) (SrcT.U16_set hl _ _ (by omega))]
  rfl

/-- `initialize_skew` for ANY `exp` / `log` tables of 65536 `u16` entries -/
theorem src_initialize_skew (exp log : Array Nat) (hE : exp.size = 65536) (hL : log.size = 65536)
    (he : U16t exp) (hl : U16t log) :
    U_initialize_skew exp log = some (initSkew exp log) :=
  SrcT.skew_src exp log hE hL he hl

end RS.SrcU
