/-
  Closed form of `formalDerivative` (the crate's `utils::formal_derivative`) on arrays of
  power-of-two size:

    out[t] = in[t] ⊕ ⊕_{b < n, bit b of t is 0} in[t + 2^b]        (t < 2^n = size)

  Structure of the proof (self-similarity, induction on `n`): for a window of size `2^(n+1)` at
  offset `off`, the steps `i < 2^n` are the steps of the lower half, step `i = 2^n` xors the
  (still original) upper half into the lower half, and the steps `2^n < i < 2^(n+1)` are the
  steps of the upper half at offset `off + 2^n` (because `tz (2^n + i') = tz i'`).

  No algebraic law of `add` is needed: the closed form is a left fold in increasing bit order,
  which is exactly the order in which the loop xors the terms into position `t`.

  All names live in `RS.FD` (other proof files define `RS.xorWithin_size`,
  `RS.formalDerivative_size`, `RS.tz_two_pow_mul`; nothing here clashes with them).
-/
import RSVerif.Proofs.SchedAux

namespace RS
namespace FD
open ShardAlg

/-! ### generic list helpers -/

theorem foldl_ext_mem {α β : Type _} (f g : α → β → α) (l : List β)
    (H : ∀ (a : α) (b : β), b ∈ l → f a b = g a b) (a : α) :
    l.foldl f a = l.foldl g a := by
  induction l generalizing a with
  | nil => rfl
  | cons x xs ih =>
    simp only [List.foldl_cons]
    rw [H a x (List.mem_cons_self ..)]
    exact ih (fun a b hb => H a b (List.mem_cons_of_mem _ hb)) _

/-! ### `tz` : `2 ^ tz i` is the lowest set bit of `i` -/

theorem tzAux_spec (f : Nat) : ∀ i : Nat, 0 < i → i < 2 ^ f →
    2 ^ tzAux f i ∣ i ∧ ¬ 2 ^ (tzAux f i + 1) ∣ i := by
  induction f with
  | zero => intro i h0 h1; simp at h1; omega
  | succ f ih =>
    intro i h0 h1
    unfold tzAux
    by_cases hodd : i % 2 = 1
    · rw [if_pos hodd]
      refine ⟨by simp, ?_⟩
      intro h
      have : (2 : Nat) ∣ i := by simpa using h
      omega
    · rw [if_neg hodd]
      have hi : i = 2 * (i / 2) := by omega
      have hlt : i / 2 < 2 ^ f := by rw [Nat.pow_succ] at h1; omega
      obtain ⟨h2, h3⟩ := ih (i / 2) (by omega) hlt
      constructor
      · rw [Nat.add_comm, Nat.pow_succ, Nat.mul_comm, hi]
        have e : 2 * (i / 2) / 2 = i / 2 := by omega
        rw [e]
        exact Nat.mul_dvd_mul_left 2 h2
      · intro h
        apply h3
        have e : 2 ^ (1 + tzAux f (i / 2) + 1) = 2 * 2 ^ (tzAux f (i / 2) + 1) := by
          rw [Nat.add_comm 1, Nat.pow_succ _ (_ + 1), Nat.mul_comm]
        rw [e] at h
        have h' : 2 * 2 ^ (tzAux f (i / 2) + 1) ∣ 2 * (i / 2) := by rw [← hi]; exact h
        exact Nat.dvd_of_mul_dvd_mul_left (by omega) h'

/-- `2 ^ tz i` divides `i` … -/
theorem two_pow_tz_dvd {i : Nat} (h0 : 0 < i) (h1 : i < 2 ^ 64) : 2 ^ tz i ∣ i := by
  unfold tz; rw [if_neg (by omega)]; exact (tzAux_spec 64 i h0 h1).1

/-- … and `2 ^ (tz i + 1)` does not: `2 ^ tz i` is the lowest set bit of `i`. -/
theorem two_pow_tz_succ_not_dvd {i : Nat} (h0 : 0 < i) (h1 : i < 2 ^ 64) :
    ¬ 2 ^ (tz i + 1) ∣ i := by
  unfold tz; rw [if_neg (by omega)]; exact (tzAux_spec 64 i h0 h1).2

theorem two_pow_tz_le {i : Nat} (h0 : 0 < i) (h1 : i < 2 ^ 64) : 2 ^ tz i ≤ i :=
  Nat.le_of_dvd h0 (two_pow_tz_dvd h0 h1)

/-- the two divisibility facts characterise `tz i` -/
theorem tz_unique {i a : Nat} (h0 : 0 < i) (h1 : i < 2 ^ 64)
    (ha : 2 ^ a ∣ i) (hna : ¬ 2 ^ (a + 1) ∣ i) : tz i = a := by
  have hb := two_pow_tz_dvd h0 h1
  have hnb := two_pow_tz_succ_not_dvd h0 h1
  by_cases h : tz i < a
  · exact absurd (Nat.dvd_trans (Nat.pow_dvd_pow 2 h) ha) hnb
  · by_cases h' : a < tz i
    · exact absurd (Nat.dvd_trans (Nat.pow_dvd_pow 2 h') hb) hna
    · omega

theorem tz_two_pow {n : Nat} (hn : n < 64) : tz (2 ^ n) = n := by
  have hpos : 0 < 2 ^ n := Nat.pow_pos (by omega)
  refine tz_unique hpos (Nat.pow_lt_pow_right (by omega) hn) (Nat.dvd_refl _) ?_
  intro h
  have := Nat.le_of_dvd hpos h
  have := Nat.pow_lt_pow_right (a := 2) (by omega) (Nat.lt_succ_self n)
  omega

theorem tz_two_pow_add {n i : Nat} (hn : n < 63) (h0 : 0 < i) (hi : i < 2 ^ n) :
    tz (2 ^ n + i) = tz i := by
  have h63 : 2 ^ n ≤ 2 ^ 62 := Nat.pow_le_pow_right (by omega) (by omega)
  have hi64 : i < 2 ^ 64 := by omega
  have hb := two_pow_tz_dvd h0 hi64
  have hnb := two_pow_tz_succ_not_dvd h0 hi64
  have hle := two_pow_tz_le h0 hi64
  have hlt : tz i < n := by
    by_cases h : tz i < n
    · exact h
    · have := Nat.pow_le_pow_right (n := 2) (by omega) (Nat.le_of_not_lt h)
      omega
  have hd : 2 ^ (tz i + 1) ∣ 2 ^ n := Nat.pow_dvd_pow 2 hlt
  refine tz_unique (by omega) (by omega) ?_ ?_
  · exact Nat.dvd_add (Nat.dvd_trans (Nat.pow_dvd_pow 2 (by omega)) hd) hb
  · intro h
    exact hnb ((Nat.dvd_add_right hd).1 h)

variable {V : Type} [ShardAlg V]

/-! ### `xorWithin` pointwise -/

theorem rd_setIfInBounds (a : Array V) (i p : Nat) (v : V) :
    rd (a.setIfInBounds i v) p = if p = i ∧ i < a.size then v else rd a p := by
  unfold rd
  rw [Array.getD_eq_getD_getElem?, Array.getD_eq_getD_getElem?, Array.getElem?_setIfInBounds]
  by_cases h : i = p
  · subst h
    by_cases h2 : i < a.size
    · simp [h2]
    · simp [h2]
  · have h' : ¬ p = i := fun e => h e.symm
    simp [h, h']

/-- state after the first `j` iterations of `xorWithin` -/
theorem xorWithin_prefix (a : Array V) (x y count : Nat)
    (hd : x + count ≤ y ∨ y + count ≤ x) (hx : x + count ≤ a.size) :
    ∀ j, j ≤ count →
      ((List.range j).foldl
          (fun a i => a.setIfInBounds (x + i) (add (rd a (x + i)) (rd a (y + i)))) a).size = a.size ∧
      ∀ p, rd ((List.range j).foldl
          (fun a i => a.setIfInBounds (x + i) (add (rd a (x + i)) (rd a (y + i)))) a) p =
        if x ≤ p ∧ p < x + j then add (rd a p) (rd a (p - x + y)) else rd a p := by
  intro j
  induction j with
  | zero =>
    intro _
    refine ⟨rfl, fun p => ?_⟩
    rw [if_neg (by omega)]; rfl
  | succ j ih =>
    intro hj
    obtain ⟨hs, hr⟩ := ih (by omega)
    rw [List.range_succ, List.foldl_append]
    simp only [List.foldl_cons, List.foldl_nil]
    refine ⟨by rw [Array.size_setIfInBounds, hs], fun p => ?_⟩
    rw [rd_setIfInBounds, hs, hr (x + j), hr (y + j), hr p,
      if_neg (by omega : ¬ (x ≤ x + j ∧ x + j < x + j)),
      if_neg (by omega : ¬ (x ≤ y + j ∧ y + j < x + j))]
    by_cases hp : p = x + j
    · subst hp
      rw [if_pos ⟨rfl, by omega⟩, if_pos (by omega)]
      have e : x + j - x + y = y + j := by omega
      rw [e]
    · rw [if_neg (fun h => hp h.1)]
      by_cases hw : x ≤ p ∧ p < x + j
      · rw [if_pos hw, if_pos (by omega)]
      · rw [if_neg hw, if_neg (by omega)]

theorem xorWithin_size (a : Array V) (x y count : Nat)
    (hd : x + count ≤ y ∨ y + count ≤ x) (hx : x + count ≤ a.size) :
    (xorWithin a x y count).size = a.size :=
  (xorWithin_prefix a x y count hd hx count (Nat.le_refl _)).1

/-- **`xorWithin` pointwise** for disjoint ranges (`a[x+i] ^= a[y+i]`, `i < count`).
    (The bound `y + count ≤ a.size` is not needed: `rd` reads `zero` out of range on both sides.) -/
theorem rd_xorWithin (a : Array V) (x y count : Nat)
    (hd : x + count ≤ y ∨ y + count ≤ x) (hx : x + count ≤ a.size) (p : Nat) :
    rd (xorWithin a x y count) p =
      if x ≤ p ∧ p < x + count then add (rd a p) (rd a (p - x + y)) else rd a p :=
  (xorWithin_prefix a x y count hd hx count (Nat.le_refl _)).2 p

/-! ### the closed form -/

/-- `fdForm n g t = g t ⊕ ⊕_{b < n, bit b of t = 0} g (t + 2^b)` (left fold, increasing `b`) -/
def fdForm (n : Nat) (g : Nat → V) (t : Nat) : V :=
  (List.range n).foldl (fun acc b => if t.testBit b then acc else add acc (g (t + 2 ^ b))) (g t)

theorem fdForm_zero (g : Nat → V) (t : Nat) : fdForm 0 g t = g t := rfl

theorem fdForm_succ (n : Nat) (g : Nat → V) (t : Nat) :
    fdForm (n + 1) g t =
      if t.testBit n then fdForm n g t else add (fdForm n g t) (g (t + 2 ^ n)) := by
  unfold fdForm
  rw [List.range_succ, List.foldl_append]
  rfl

theorem fdForm_lower (n : Nat) (g : Nat → V) {t : Nat} (ht : t < 2 ^ n) :
    fdForm (n + 1) g t = add (fdForm n g t) (g (t + 2 ^ n)) := by
  rw [fdForm_succ, Nat.testBit_lt_two_pow ht]; rfl

theorem fdForm_upper (n : Nat) (g : Nat → V) {t : Nat} (ht : t < 2 ^ n) :
    fdForm (n + 1) g (2 ^ n + t) = fdForm n (fun s => g (2 ^ n + s)) t := by
  rw [fdForm_succ, Nat.testBit_two_pow_add_eq, Nat.testBit_lt_two_pow ht]
  simp only [Bool.not_false, if_true]
  unfold fdForm
  apply foldl_ext_mem
  intro acc b hb
  rw [List.mem_range] at hb
  rw [Nat.testBit_two_pow_add_gt hb, Nat.add_assoc]

theorem fdForm_congr (n : Nat) {g h : Nat → V} (e : ∀ s, g s = h s) (t : Nat) :
    fdForm n g t = fdForm n h t := by
  have : g = h := funext e
  rw [this]

/-- every index read by the closed form is inside the window -/
theorem add_two_pow_lt {n b t : Nat} (ht : t < 2 ^ n) (hb : b < n) (hbit : t.testBit b = false) :
    t + 2 ^ b < 2 ^ n := by
  induction n generalizing t b with
  | zero => omega
  | succ n ih =>
    rw [Nat.pow_succ] at ht ⊢
    cases b with
    | zero =>
      rw [Nat.testBit_zero] at hbit
      simp at hbit
      omega
    | succ b =>
      rw [Nat.testBit_succ] at hbit
      have := ih (t := t / 2) (b := b) (by omega) (by omega) hbit
      rw [Nat.pow_succ]
      omega

/-! ### the loop on a window -/

/-- step `i = k + 1` of the loop, on the window starting at `off` -/
def fdStep (off : Nat) (a : Array V) (k : Nat) : Array V :=
  xorWithin a (off + (k + 1 - 2 ^ tz (k + 1))) (off + (k + 1)) (2 ^ tz (k + 1))

/-- steps `i = 1 … m` of the loop, on the window starting at `off` -/
def fdSteps (off m : Nat) (a : Array V) : Array V := (List.range m).foldl (fdStep off) a

theorem formalDerivative_eq_fdSteps (a : Array V) :
    formalDerivative a = fdSteps 0 (a.size - 1) a := by
  unfold formalDerivative fdSteps
  apply foldl_ext_mem
  intro b k _
  simp only [fdStep, Nat.zero_add]

/-- the steps of a window of size `2^(n+1)`: lower half, cross step, upper half -/
theorem fdSteps_split {n : Nat} (hn : n < 63) (off : Nat) (a : Array V) :
    fdSteps off (2 ^ (n + 1) - 1) a =
      fdSteps (off + 2 ^ n) (2 ^ n - 1)
        (xorWithin (fdSteps off (2 ^ n - 1) a) off (off + 2 ^ n) (2 ^ n)) := by
  have hpos : 0 < 2 ^ n := Nat.pow_pos (by omega)
  have e : 2 ^ (n + 1) - 1 = (2 ^ n - 1 + 1) + (2 ^ n - 1) := by rw [Nat.pow_succ]; omega
  unfold fdSteps
  rw [e, List.range_add, List.foldl_append, List.range_succ, List.foldl_append, List.foldl_map]
  simp only [List.foldl_cons, List.foldl_nil]
  have e1 : 2 ^ n - 1 + 1 = 2 ^ n := by omega
  have hcross : ∀ b : Array V, fdStep off b (2 ^ n - 1) = xorWithin b off (off + 2 ^ n) (2 ^ n) := by
    intro b
    unfold fdStep
    rw [e1, tz_two_pow (by omega), Nat.sub_self, Nat.add_zero]
  rw [hcross]
  apply foldl_ext_mem
  intro b k hk
  rw [List.mem_range] at hk
  unfold fdStep
  have e2 : 2 ^ n - 1 + 1 + k + 1 = 2 ^ n + (k + 1) := by omega
  have h63 : 2 ^ n ≤ 2 ^ 62 := Nat.pow_le_pow_right (by omega) (by omega)
  have hle := two_pow_tz_le (i := k + 1) (by omega) (by omega)
  rw [e2, tz_two_pow_add hn (by omega) (by omega)]
  have e3 : off + (2 ^ n + (k + 1) - 2 ^ tz (k + 1)) = off + 2 ^ n + (k + 1 - 2 ^ tz (k + 1)) := by
    omega
  have e4 : off + (2 ^ n + (k + 1)) = off + 2 ^ n + (k + 1) := by omega
  rw [e3, e4]

/-- **the loop on a window of size `2^n`**: size is preserved, positions outside the window are
    untouched, and inside the window the result is the closed form of the original contents -/
theorem fdSteps_spec (n : Nat) (hn : n ≤ 63) : ∀ (off : Nat) (a : Array V), off + 2 ^ n ≤ a.size →
    (fdSteps off (2 ^ n - 1) a).size = a.size ∧
    ∀ p, rd (fdSteps off (2 ^ n - 1) a) p =
      if off ≤ p ∧ p < off + 2 ^ n then fdForm n (fun t => rd a (off + t)) (p - off)
      else rd a p := by
  induction n with
  | zero =>
    intro off a _
    refine ⟨rfl, fun p => ?_⟩
    show rd a p = _
    by_cases h : off ≤ p ∧ p < off + 2 ^ 0
    · rw [if_pos h, fdForm_zero]
      have : off + (p - off) = p := by omega
      rw [this]
    · rw [if_neg h]
  | succ n ih =>
    intro off a hsz
    have hpos : 0 < 2 ^ n := Nat.pow_pos (by omega)
    have hpow : 2 ^ (n + 1) = 2 ^ n + 2 ^ n := by rw [Nat.pow_succ]; omega
    rw [fdSteps_split (by omega)]
    obtain ⟨hs1, hr1⟩ := ih (by omega) off a (by omega)
    have hd : off + 2 ^ n ≤ off + 2 ^ n ∨ off + 2 ^ n + 2 ^ n ≤ off := Or.inl (Nat.le_refl _)
    have hs2 := xorWithin_size (fdSteps off (2 ^ n - 1) a) off (off + 2 ^ n) (2 ^ n) hd
      (by rw [hs1]; omega)
    have hr2 := rd_xorWithin (fdSteps off (2 ^ n - 1) a) off (off + 2 ^ n) (2 ^ n) hd
      (by rw [hs1]; omega)
    obtain ⟨hs3, hr3⟩ := ih (by omega) (off + 2 ^ n)
      (xorWithin (fdSteps off (2 ^ n - 1) a) off (off + 2 ^ n) (2 ^ n)) (by rw [hs2, hs1]; omega)
    refine ⟨by rw [hs3, hs2, hs1], fun p => ?_⟩
    -- above the lower half, the array after the cross step is the original
    have hup : ∀ q, off + 2 ^ n ≤ q →
        rd (xorWithin (fdSteps off (2 ^ n - 1) a) off (off + 2 ^ n) (2 ^ n)) q = rd a q := by
      intro q hq
      rw [hr2, if_neg (by omega), hr1, if_neg (by omega)]
    rw [hr3]
    by_cases hU : off + 2 ^ n ≤ p ∧ p < off + 2 ^ n + 2 ^ n
    · -- upper half
      rw [if_pos hU, if_pos (by omega)]
      have e : p - off = 2 ^ n + (p - (off + 2 ^ n)) := by omega
      rw [e, fdForm_upper n _ (by omega)]
      apply fdForm_congr
      intro s
      rw [hup _ (by omega), Nat.add_assoc]
    · rw [if_neg hU, hr2]
      by_cases hL : off ≤ p ∧ p < off + 2 ^ n
      · -- lower half
        rw [if_pos hL, if_pos (by omega), hr1 p, if_pos hL, hr1, if_neg (by omega),
          fdForm_lower n _ (by omega)]
        have e : p - off + (off + 2 ^ n) = off + (p - off + 2 ^ n) := by omega
        rw [e]
      · rw [if_neg hL, if_neg (by omega), hr1, if_neg hL]

/-! ### main theorems -/

/-- `formalDerivative` preserves the size (power-of-two sizes) -/
theorem formalDerivative_size {n : Nat} (hn : n ≤ 63) (a : Array V) (ha : a.size = 2 ^ n) :
    (formalDerivative a).size = a.size := by
  rw [formalDerivative_eq_fdSteps, ha]
  have := (fdSteps_spec n hn 0 a (by omega)).1
  rw [this, ha]

/-- **closed form of `formalDerivative`** on an array of size `2^n`: for `t < 2^n`,
    `out[t] = in[t] ⊕ ⊕_{b < n, bit b of t = 0} in[t + 2^b]`
    (the xors are taken in increasing order of `b`; all `t + 2^b < 2^n` by `add_two_pow_lt`). -/
theorem rd_formalDerivative {n : Nat} (hn : n ≤ 63) (a : Array V) (ha : a.size = 2 ^ n)
    {t : Nat} (ht : t < 2 ^ n) :
    rd (formalDerivative a) t =
      (List.range n).foldl
        (fun acc b => if t.testBit b then acc else add acc (rd a (t + 2 ^ b))) (rd a t) := by
  rw [formalDerivative_eq_fdSteps, ha]
  have := (fdSteps_spec n hn 0 a (by omega)).2 t
  rw [this, if_pos (by omega)]
  simp only [fdForm, Nat.zero_add, Nat.sub_zero]

/-- outside the array `rd` of the result is `zero` (as for every array) -/
theorem rd_formalDerivative_ge {n : Nat} (hn : n ≤ 63) (a : Array V) (ha : a.size = 2 ^ n)
    {t : Nat} (ht : 2 ^ n ≤ t) : rd (formalDerivative a) t = zero := by
  apply rd_eq_zero
  rw [formalDerivative_size hn a ha, ha]
  omega

end FD

/-! ### sanity checks on `V = Sym` -/

-- size 4: out = [a0^a1^a2, a1^a3, a2^a3, a3]
-- #eval formalDerivative (#[1#16, 2#16, 4#16, 8#16] : Array Sym)   -- #[7, 10, 12, 8]
example : formalDerivative (#[1#16, 2#16, 4#16, 8#16] : Array Sym) = #[7#16, 10#16, 12#16, 8#16] := by
  decide

-- size 8: out[0] = a0^a1^a2^a4, out[3] = a3^a7, out[5] = a5^a7, out[6] = a6^a7
example : formalDerivative (#[1#16, 2#16, 4#16, 8#16, 16#16, 32#16, 64#16, 128#16] : Array Sym)
    = #[23#16, 42#16, 76#16, 136#16, 112#16, 160#16, 192#16, 128#16] := by
  decide

end RS

#print axioms RS.FD.rd_xorWithin
#print axioms RS.FD.xorWithin_size
#print axioms RS.FD.two_pow_tz_dvd
#print axioms RS.FD.two_pow_tz_succ_not_dvd
#print axioms RS.FD.add_two_pow_lt
#print axioms RS.FD.fdSteps_spec
#print axioms RS.FD.formalDerivative_size
#print axioms RS.FD.rd_formalDerivative
