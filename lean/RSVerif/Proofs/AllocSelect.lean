/-
  PART A: the working space is reused in place: rounds never allocate, a reset / renew allocates
          iff the configuration needs more than the high-water mark held so far.
  PART B: the default engine runs only SIMD code the CPU reports, and picks the best.

  Main statements.
  A1  `Encoder.add_alloc`, `Encoder.encode_alloc`, `Decoder.addOriginal_alloc`,
      `Decoder.addRecovery_alloc`, `Decoder.decode_alloc` (+ one projection theorem per observable)
  A2  `Encoder.reset_alloc_cases` / `reset_allocs` / `reset_allocs_wf` / `reset_allocs_of_fail` /
      `reset_step` / `reset_no_alloc_of_le`, `Encoder.new_allocs` / `new_no_alloc_of_le` /
      `new_fresh`, and the same names under `Decoder` (with `bitAllocs`, `bitLen`)
  A3  `EncOp.step_alloc`, `EncOp.run_allocs`, `EncOp.allocs_mono`, `EncOp.run_no_alloc`,
      `EncOp.history_one_alloc`, `EncOp.history_one_alloc_cfg`, and the same under `DecOp`
  B   `select{New,Eval}{X86,Arm}_legal`, `selectNew*_eq_eval`, `select*_best`, `executed*_eq`,
      `executed*_legal`, `executed*_best`, `select*_portable_iff`, `executed*_nil_iff`
-/
import RSVerif.Model.State
import RSVerif.Model.Select
import RSVerif.Proofs.Envelope

namespace RS

/-! ## PART B: engine selection -/

theorem selectNewX86_legal (avx2 ssse3 : Bool) :
    legalX86 avx2 ssse3 (selectNewX86 avx2 ssse3) = true := by
  cases avx2 <;> cases ssse3 <;> decide

theorem selectEvalX86_legal (avx2 ssse3 : Bool) :
    legalX86 avx2 ssse3 (selectEvalX86 avx2 ssse3) = true := by
  cases avx2 <;> cases ssse3 <;> decide

theorem selectNewX86_eq_eval (avx2 ssse3 : Bool) :
    selectNewX86 avx2 ssse3 = selectEvalX86 avx2 ssse3 := rfl

theorem selectNewX86_best (avx2 ssse3 : Bool) (i : Isa) (h : legalX86 avx2 ssse3 i = true) :
    rank i ≤ rank (selectNewX86 avx2 ssse3) := by
  revert h; cases avx2 <;> cases ssse3 <;> cases i <;> decide

theorem selectEvalX86_best (avx2 ssse3 : Bool) (i : Isa) (h : legalX86 avx2 ssse3 i = true) :
    rank i ≤ rank (selectEvalX86 avx2 ssse3) := by
  revert h; cases avx2 <;> cases ssse3 <;> cases i <;> decide

theorem executedX86_eq (avx2 ssse3 : Bool) :
    executedX86 avx2 ssse3
      = (if selectNewX86 avx2 ssse3 = .portable then [] else [selectNewX86 avx2 ssse3]) := by
  cases avx2 <;> cases ssse3 <;> decide

theorem executedX86_legal (avx2 ssse3 : Bool) (i : Isa) (h : i ∈ executedX86 avx2 ssse3) :
    legalX86 avx2 ssse3 i = true := by
  revert h; cases avx2 <;> cases ssse3 <;> cases i <;> decide

/-- everything a round executes is the single best legal instruction set -/
theorem executedX86_best (avx2 ssse3 : Bool) (i j : Isa) (h : i ∈ executedX86 avx2 ssse3)
    (hj : legalX86 avx2 ssse3 j = true) : rank j ≤ rank i := by
  revert h hj; cases avx2 <;> cases ssse3 <;> cases i <;> cases j <;> decide

theorem selectNewX86_portable_iff (avx2 ssse3 : Bool) :
    selectNewX86 avx2 ssse3 = .portable ↔ (avx2 = false ∧ ssse3 = false) := by
  cases avx2 <;> cases ssse3 <;> decide

theorem selectEvalX86_portable_iff (avx2 ssse3 : Bool) :
    selectEvalX86 avx2 ssse3 = .portable ↔ (avx2 = false ∧ ssse3 = false) := by
  cases avx2 <;> cases ssse3 <;> decide

theorem executedX86_nil_iff (avx2 ssse3 : Bool) :
    executedX86 avx2 ssse3 = [] ↔ (avx2 = false ∧ ssse3 = false) := by
  cases avx2 <;> cases ssse3 <;> decide

theorem selectNewArm_legal (neon : Bool) : legalArm neon (selectNewArm neon) = true := by
  cases neon <;> decide

theorem selectEvalArm_legal (neon : Bool) : legalArm neon (selectEvalArm neon) = true := by
  cases neon <;> decide

theorem selectNewArm_eq_eval (neon : Bool) : selectNewArm neon = selectEvalArm neon := rfl

theorem selectNewArm_best (neon : Bool) (i : Isa) (h : legalArm neon i = true) :
    rank i ≤ rank (selectNewArm neon) := by
  revert h; cases neon <;> cases i <;> decide

theorem selectEvalArm_best (neon : Bool) (i : Isa) (h : legalArm neon i = true) :
    rank i ≤ rank (selectEvalArm neon) := by
  revert h; cases neon <;> cases i <;> decide

theorem executedArm_eq (neon : Bool) :
    executedArm neon = (if selectNewArm neon = .portable then [] else [selectNewArm neon]) := by
  cases neon <;> decide

theorem executedArm_legal (neon : Bool) (i : Isa) (h : i ∈ executedArm neon) :
    legalArm neon i = true := by
  revert h; cases neon <;> cases i <;> decide

theorem executedArm_best (neon : Bool) (i j : Isa) (h : i ∈ executedArm neon)
    (hj : legalArm neon j = true) : rank j ≤ rank i := by
  revert h hj; cases neon <;> cases i <;> cases j <;> decide

theorem selectNewArm_portable_iff (neon : Bool) : selectNewArm neon = .portable ↔ neon = false := by
  cases neon <;> decide

theorem selectEvalArm_portable_iff (neon : Bool) :
    selectEvalArm neon = .portable ↔ neon = false := by
  cases neon <;> decide

theorem executedArm_nil_iff (neon : Bool) : executedArm neon = [] ↔ neon = false := by
  cases neon <;> decide


/-! ## PART A: allocation discipline -/

/-! ### the observables -/

/-- growing reallocations of the shard memory the encoder's work space went through -/
def Encoder.allocs (e : Encoder) : Nat :=
  match e.inner with
  | .some _ w => w.allocs
  | .none => 0

/-- high-water mark (64-byte blocks) of the encoder's work space -/
def Encoder.held (e : Encoder) : Nat :=
  match e.inner with
  | .some _ w => w.heldBlocks
  | .none => 0

def Decoder.allocs (d : Decoder) : Nat :=
  match d.inner with
  | .some _ w => w.allocs
  | .none => 0

def Decoder.bitAllocs (d : Decoder) : Nat :=
  match d.inner with
  | .some _ w => w.bitAllocs
  | .none => 0

def Decoder.held (d : Decoder) : Nat :=
  match d.inner with
  | .some _ w => w.heldBlocks
  | .none => 0

/-- length of the received-bitmap -/
def Decoder.bitLen (d : Decoder) : Nat :=
  match d.inner with
  | .some _ w => w.received.size
  | .none => 0

/-! ### 1. rounds never allocate -/

theorem EncWork.add_ok_alloc {w w' : EncWork} {shard : Array Nat} (h : w.add shard = .ok w') :
    w'.allocs = w.allocs ∧ w'.heldBlocks = w.heldBlocks := by
  unfold EncWork.add at h
  split at h
  · cases h
  · split at h
    · cases h
    · split at h
      · split at h
        · cases h; exact ⟨rfl, rfl⟩
        · cases h
      · cases h

theorem Encoder.add_alloc (e : Encoder) (shard : Array Nat) :
    (e.add shard).2.allocs = e.allocs ∧ (e.add shard).2.held = e.held := by
  obtain ⟨kind, sched, inner⟩ := e
  cases inner with
  | none => exact ⟨rfl, rfl⟩
  | some rate w =>
    unfold Encoder.add; dsimp only
    cases ha : w.add shard with
    | ok w' => exact EncWork.add_ok_alloc ha
    | err er => exact ⟨rfl, rfl⟩
    | panic why => exact ⟨rfl, rfl⟩

theorem Encoder.add_allocs (e : Encoder) (shard : Array Nat) : (e.add shard).2.allocs = e.allocs :=
  (e.add_alloc shard).1

theorem Encoder.add_held (e : Encoder) (shard : Array Nat) : (e.add shard).2.held = e.held :=
  (e.add_alloc shard).2

theorem Encoder.encode_alloc (e : Encoder) :
    e.encode.2.allocs = e.allocs ∧ e.encode.2.held = e.held := by
  obtain ⟨kind, sched, inner⟩ := e
  cases inner with
  | none => exact ⟨rfl, rfl⟩
  | some rate w =>
    unfold Encoder.encode; dsimp only
    split <;> exact ⟨rfl, rfl⟩

theorem Encoder.encode_allocs (e : Encoder) : e.encode.2.allocs = e.allocs := e.encode_alloc.1

theorem Encoder.encode_held (e : Encoder) : e.encode.2.held = e.held := e.encode_alloc.2


/-- copy of the private `DecWork.insert` (private here as well: other proof files have theirs) -/
private def DecWork.insertC (w : DecWork) (pos : Nat) (shard : Array Nat) : Outcome DecWork :=
  if h : w.sb / 2 = w.L then
    if pos < w.mem.size then
      .ok { w with mem := w.mem.setIfInBounds pos (h ▸ layout w.sb shard),
                   received := w.received.setIfInBounds pos true }
    else .panic "shard index out of range"
  else .panic "lane count invariant broken"

private theorem DecWork.addOriginal_eqC (w : DecWork) (index : Nat) (shard : Array Nat) :
    w.addOriginal index shard =
      if index ≥ w.k then .err (.invalidOriginalIndex w.k index)
      else if w.recvAt (w.obase + index) then .err (.duplicateOriginal index)
      else if shard.size ≠ w.sb then .err (.differentShardSize w.sb shard.size)
      else (w.insertC (w.obase + index) shard).bind fun w => .ok { w with orecv := w.orecv + 1 } :=
  rfl

private theorem DecWork.addRecovery_eqC (w : DecWork) (index : Nat) (shard : Array Nat) :
    w.addRecovery index shard =
      if index ≥ w.r then .err (.invalidRecoveryIndex w.r index)
      else if w.recvAt (w.rbase + index) then .err (.duplicateRecovery index)
      else if shard.size ≠ w.sb then .err (.differentShardSize w.sb shard.size)
      else (w.insertC (w.rbase + index) shard).bind fun w => .ok { w with rrecv := w.rrecv + 1 } :=
  rfl

/-- the four allocation observables of a decoder work space coincide -/
def DecWork.SameAlloc (w w' : DecWork) : Prop :=
  w'.allocs = w.allocs ∧ w'.bitAllocs = w.bitAllocs ∧ w'.heldBlocks = w.heldBlocks
    ∧ w'.received.size = w.received.size

private theorem DecWork.insertC_ok {w w' : DecWork} {pos : Nat} {shard : Array Nat}
    (h : w.insertC pos shard = .ok w') : DecWork.SameAlloc w w' := by
  unfold DecWork.insertC at h
  split at h
  · split at h
    · cases h; exact ⟨rfl, rfl, rfl, by simp⟩
    · cases h
  · cases h

theorem DecWork.addOriginal_ok_alloc {w w' : DecWork} {index : Nat} {shard : Array Nat}
    (h : w.addOriginal index shard = .ok w') : DecWork.SameAlloc w w' := by
  rw [DecWork.addOriginal_eqC] at h
  split at h
  · cases h
  · split at h
    · cases h
    · split at h
      · cases h
      · cases hi : w.insertC (w.obase + index) shard with
        | ok w1 =>
          rw [hi] at h
          have h1 := DecWork.insertC_ok hi
          cases h
          exact h1
        | err er => rw [hi] at h; cases h
        | panic why => rw [hi] at h; cases h

theorem DecWork.addRecovery_ok_alloc {w w' : DecWork} {index : Nat} {shard : Array Nat}
    (h : w.addRecovery index shard = .ok w') : DecWork.SameAlloc w w' := by
  rw [DecWork.addRecovery_eqC] at h
  split at h
  · cases h
  · split at h
    · cases h
    · split at h
      · cases h
      · cases hi : w.insertC (w.rbase + index) shard with
        | ok w1 =>
          rw [hi] at h
          have h1 := DecWork.insertC_ok hi
          cases h
          exact h1
        | err er => rw [hi] at h; cases h
        | panic why => rw [hi] at h; cases h

theorem DecWork.resetReceived_alloc (w : DecWork) : DecWork.SameAlloc w w.resetReceived :=
  ⟨rfl, rfl, rfl, by simp [DecWork.resetReceived]⟩

/-- the four allocation observables of a decoder coincide -/
def Decoder.SameAlloc (d d' : Decoder) : Prop :=
  d'.allocs = d.allocs ∧ d'.bitAllocs = d.bitAllocs ∧ d'.held = d.held ∧ d'.bitLen = d.bitLen

theorem Decoder.SameAlloc.refl (d : Decoder) : Decoder.SameAlloc d d := ⟨rfl, rfl, rfl, rfl⟩

theorem Decoder.addOriginal_alloc (d : Decoder) (index : Nat) (shard : Array Nat) :
    Decoder.SameAlloc d (d.addOriginal index shard).2 := by
  obtain ⟨kind, sched, inner⟩ := d
  cases inner with
  | none => exact ⟨rfl, rfl, rfl, rfl⟩
  | some rate w =>
    unfold Decoder.addOriginal; dsimp only
    cases ha : w.addOriginal index shard with
    | ok w' => exact DecWork.addOriginal_ok_alloc ha
    | err er => exact ⟨rfl, rfl, rfl, rfl⟩
    | panic why => exact ⟨rfl, rfl, rfl, rfl⟩

theorem Decoder.addRecovery_alloc (d : Decoder) (index : Nat) (shard : Array Nat) :
    Decoder.SameAlloc d (d.addRecovery index shard).2 := by
  obtain ⟨kind, sched, inner⟩ := d
  cases inner with
  | none => exact ⟨rfl, rfl, rfl, rfl⟩
  | some rate w =>
    unfold Decoder.addRecovery; dsimp only
    cases ha : w.addRecovery index shard with
    | ok w' => exact DecWork.addRecovery_ok_alloc ha
    | err er => exact ⟨rfl, rfl, rfl, rfl⟩
    | panic why => exact ⟨rfl, rfl, rfl, rfl⟩

theorem Decoder.decode_alloc (lw : Array Nat) (d : Decoder) :
    Decoder.SameAlloc d (d.decode lw).2 := by
  obtain ⟨kind, sched, inner⟩ := d
  cases inner with
  | none => exact ⟨rfl, rfl, rfl, rfl⟩
  | some rate w =>
    unfold Decoder.decode; dsimp only
    split
    · exact ⟨rfl, rfl, rfl, rfl⟩
    · split
      · exact DecWork.resetReceived_alloc w
      · exact DecWork.resetReceived_alloc _

theorem Decoder.addOriginal_allocs (d : Decoder) (index : Nat) (shard : Array Nat) :
    (d.addOriginal index shard).2.allocs = d.allocs := (d.addOriginal_alloc index shard).1
theorem Decoder.addOriginal_bitAllocs (d : Decoder) (index : Nat) (shard : Array Nat) :
    (d.addOriginal index shard).2.bitAllocs = d.bitAllocs := (d.addOriginal_alloc index shard).2.1
theorem Decoder.addOriginal_held (d : Decoder) (index : Nat) (shard : Array Nat) :
    (d.addOriginal index shard).2.held = d.held := (d.addOriginal_alloc index shard).2.2.1
theorem Decoder.addOriginal_bitLen (d : Decoder) (index : Nat) (shard : Array Nat) :
    (d.addOriginal index shard).2.bitLen = d.bitLen := (d.addOriginal_alloc index shard).2.2.2

theorem Decoder.addRecovery_allocs (d : Decoder) (index : Nat) (shard : Array Nat) :
    (d.addRecovery index shard).2.allocs = d.allocs := (d.addRecovery_alloc index shard).1
theorem Decoder.addRecovery_bitAllocs (d : Decoder) (index : Nat) (shard : Array Nat) :
    (d.addRecovery index shard).2.bitAllocs = d.bitAllocs := (d.addRecovery_alloc index shard).2.1
theorem Decoder.addRecovery_held (d : Decoder) (index : Nat) (shard : Array Nat) :
    (d.addRecovery index shard).2.held = d.held := (d.addRecovery_alloc index shard).2.2.1
theorem Decoder.addRecovery_bitLen (d : Decoder) (index : Nat) (shard : Array Nat) :
    (d.addRecovery index shard).2.bitLen = d.bitLen := (d.addRecovery_alloc index shard).2.2.2

theorem Decoder.decode_allocs (lw : Array Nat) (d : Decoder) :
    (d.decode lw).2.allocs = d.allocs := (d.decode_alloc lw).1
theorem Decoder.decode_bitAllocs (lw : Array Nat) (d : Decoder) :
    (d.decode lw).2.bitAllocs = d.bitAllocs := (d.decode_alloc lw).2.1
theorem Decoder.decode_held (lw : Array Nat) (d : Decoder) :
    (d.decode lw).2.held = d.held := (d.decode_alloc lw).2.2.1
theorem Decoder.decode_bitLen (lw : Array Nat) (d : Decoder) :
    (d.decode lw).2.bitLen = d.bitLen := (d.decode_alloc lw).2.2.2


/-! ### 2. a reset / renew allocates iff the need exceeds the high-water mark -/

/-- allocation counter after a configuration change that needs `need` blocks -/
def bump (held allocs need : Nat) : Nat := if need > held then allocs + 1 else allocs

theorem bump_of_le {held allocs need : Nat} (h : need ≤ held) : bump held allocs need = allocs := by
  unfold bump; rw [if_neg (by omega)]

theorem bump_of_gt {held allocs need : Nat} (h : held < need) :
    bump held allocs need = allocs + 1 := by
  unfold bump; rw [if_pos h]

theorem le_bump (held allocs need : Nat) : allocs ≤ bump held allocs need := by
  unfold bump; split <;> omega

/-- `reset_work` of an encoder: it goes through exactly when `validateRate` accepts, and then
    bumps the counter iff the need exceeds the high-water mark -/
theorem encResetWork_alloc_cases (stale : Stale) (rate : Rate) (w : EncWork) (k r sb : Nat) :
    (validateRate rate k r sb = .ok () ∧ ∃ w', encResetWork stale rate w k r sb = .ok w'
        ∧ w'.allocs = bump w.heldBlocks w.allocs (blocksNeeded (encWorkCount rate k r) sb)
        ∧ w'.heldBlocks = max w.heldBlocks (blocksNeeded (encWorkCount rate k r) sb))
    ∨ (∃ er, validateRate rate k r sb = .error er ∧ encResetWork stale rate w k r sb = .err er) := by
  unfold encResetWork
  rcases validateRate_cases rate k r sb with ⟨_, h2⟩ | ⟨_, _, h3⟩ | ⟨_, h2, h3⟩
  · rw [h2]; exact Or.inr ⟨_, rfl, rfl⟩
  · rw [h3]; exact Or.inr ⟨_, rfl, rfl⟩
  · rw [h3]; refine Or.inl ⟨rfl, ?_⟩
    have := badShardSize_false_iff.mp h2
    unfold EncWork.reset
    rw [if_neg (by omega)]
    exact ⟨_, rfl, rfl, rfl⟩

/-- the default rule only picks a rate that supports the configuration -/
theorem chooseRate_default_validate {k r sb : Nat} {rate : Rate}
    (h : chooseRate .default k r = .ok rate) (hb : badShardSize sb = false) :
    validateRate rate k r sb = .ok () := by
  rcases chooseRate_cases .default k r with ⟨_, h2, _⟩ | ⟨rate', h2, h1, _, _, hd⟩
  · rw [h2] at h; cases h
  · rw [h2] at h; cases h
    have hs := hd rfl
    rcases validateRate_cases rate k r sb with ⟨e1, _⟩ | ⟨_, e2, _⟩ | ⟨_, _, e3⟩
    · rw [← h1, hs] at e1; cases e1
    · rw [hb] at e2; cases e2
    · exact e3

theorem validateRate_ok_size {rate : Rate} {k r sb : Nat} (h : validateRate rate k r sb = .ok ()) :
    badShardSize sb = false := by
  rcases validateRate_cases rate k r sb with ⟨_, e2⟩ | ⟨_, _, e3⟩ | ⟨_, e2, _⟩
  · rw [e2] at h; cases h
  · rw [e3] at h; cases h
  · exact e2

/-- the rate `reset` hands to `reset_work`: the default flavour follows the rule, a dedicated
    flavour keeps the rate it has -/
def rateFor (kind : Kind) (cur : Rate) (k r : Nat) : Except Err Rate :=
  match kind with
  | .default => chooseRate .default k r
  | _ => .ok cur

/-- on a well-formed object (`Encoder.reset_cases` hypotheses) this is `chooseRate` -/
theorem rateFor_eq_chooseRate {kind : Kind} {cur : Rate} (hh : kind = .high → cur = .high)
    (hl : kind = .low → cur = .low) (k r : Nat) : rateFor kind cur k r = chooseRate kind k r := by
  cases kind with
  | default => rfl
  | high => rw [hh rfl]; rfl
  | low => rw [hl rfl]; rfl

/-- blocks a configuration change to `(k, r, sb)` asks for (`none`: it is rejected) -/
def needOf (rate? : Except Err Rate) (count : Rate → Nat → Nat → Nat) (k r sb : Nat) : Option Nat :=
  match rate? with
  | .error _ => none
  | .ok rate =>
    match validateRate rate k r sb with
    | .error _ => none
    | .ok () => some (blocksNeeded (count rate k r) sb)

theorem needOf_some {rate? : Except Err Rate} {count : Rate → Nat → Nat → Nat} {k r sb n : Nat}
    (h : needOf rate? count k r sb = some n) :
    ∃ rate, rate? = .ok rate ∧ validateRate rate k r sb = .ok ()
      ∧ n = blocksNeeded (count rate k r) sb := by
  unfold needOf at h
  cases rate? with
  | error er => cases h
  | ok rate =>
    dsimp only at h
    cases hv : validateRate rate k r sb with
    | error er => rw [hv] at h; cases h
    | ok u => rw [hv] at h; cases h; exact ⟨rate, rfl, hv, rfl⟩

theorem needOf_ok {rate : Rate} {count : Rate → Nat → Nat → Nat} {k r sb : Nat}
    (hv : validateRate rate k r sb = .ok ()) :
    needOf (.ok rate) count k r sb = some (blocksNeeded (count rate k r) sb) := by
  unfold needOf; dsimp only; rw [hv]

theorem needOf_none {rate? : Except Err Rate} {count : Rate → Nat → Nat → Nat} {k r sb : Nat}
    (h : needOf rate? count k r sb = none) :
    ∀ rate, rate? = .ok rate → ∃ er, validateRate rate k r sb = .error er := by
  intro rate hr; subst hr
  unfold needOf at h; dsimp only at h
  cases hv : validateRate rate k r sb with
  | error er => exact ⟨er, rfl⟩
  | ok u => rw [hv] at h; cases h

/-- blocks `e.reset k r sb` asks for (`none`: the reset fails) -/
def Encoder.resetNeed (e : Encoder) (k r sb : Nat) : Option Nat :=
  match e.inner with
  | .none => none
  | .some cur _ => needOf (rateFor e.kind cur k r) encWorkCount k r sb

/-- blocks `Encoder.new kind _ k r sb _` asks for (`none`: the constructor fails) -/
def encNewNeed (kind : Kind) (k r sb : Nat) : Option Nat :=
  needOf (chooseRate kind k r) encWorkCount k r sb

/-- **`Encoder.reset`, complete description of the allocation behaviour** (no well-formedness
    hypothesis): either it goes through with the rate `rateFor` and `reset_work` bumps the
    counter iff the need exceeds the high-water mark, or it fails and the object is unchanged -/
theorem Encoder.reset_alloc_cases (stale : Stale) (e : Encoder) (k r sb : Nat) {cur : Rate}
    {w : EncWork} (hi : e.inner = .some cur w) :
    (∃ rate w', rateFor e.kind cur k r = .ok rate ∧ validateRate rate k r sb = .ok ()
        ∧ e.reset stale k r sb = (.ok (), { e with inner := .some rate w' })
        ∧ w'.allocs = bump w.heldBlocks w.allocs (blocksNeeded (encWorkCount rate k r) sb)
        ∧ w'.heldBlocks = max w.heldBlocks (blocksNeeded (encWorkCount rate k r) sb))
    ∨ ((∀ rate, rateFor e.kind cur k r = .ok rate → ∃ er, validateRate rate k r sb = .error er)
        ∧ (e.reset stale k r sb).1 ≠ .ok () ∧ (e.reset stale k r sb).2 = e) := by
  obtain ⟨kind, sched, inner⟩ := e
  dsimp only at hi ⊢
  subst hi
  unfold Encoder.reset
  dsimp only
  cases kind with
  | default =>
    dsimp only [rateFor]
    cases hc : chooseRate .default k r with
    | error er => exact Or.inr ⟨nofun, nofun, rfl⟩
    | ok rate =>
      dsimp only
      cases hb : badShardSize sb with
      | true =>
        refine Or.inr ⟨?_, by simp, by simp⟩
        intro rate' h'; cases h'
        cases hv : validateRate rate k r sb with
        | error er => exact ⟨er, rfl⟩
        | ok u => rw [validateRate_ok_size hv] at hb; cases hb
      | false =>
        have hv := chooseRate_default_validate hc hb
        rcases encResetWork_alloc_cases stale rate w k r sb with
          ⟨_, w', e1, e2, e3⟩ | ⟨er, e1, _⟩
        · rw [e1]; exact Or.inl ⟨rate, w', rfl, hv, by simp, e2, e3⟩
        · rw [hv] at e1; cases e1
  | high =>
    dsimp only [rateFor]
    rcases encResetWork_alloc_cases stale cur w k r sb with
      ⟨hv, w', e1, e2, e3⟩ | ⟨er, e1, e2⟩
    · rw [e1]; exact Or.inl ⟨cur, w', rfl, hv, rfl, e2, e3⟩
    · rw [e2]; refine Or.inr ⟨?_, nofun, rfl⟩
      intro rate' h'; cases h'; exact ⟨er, e1⟩
  | low =>
    dsimp only [rateFor]
    rcases encResetWork_alloc_cases stale cur w k r sb with
      ⟨hv, w', e1, e2, e3⟩ | ⟨er, e1, e2⟩
    · rw [e1]; exact Or.inl ⟨cur, w', rfl, hv, rfl, e2, e3⟩
    · rw [e2]; refine Or.inr ⟨?_, nofun, rfl⟩
      intro rate' h'; cases h'; exact ⟨er, e1⟩


/-- counter after a configuration change whose need is `need?` (`none`: it fails) -/
def bumpO (held allocs : Nat) : Option Nat → Nat
  | some n => bump held allocs n
  | none => allocs

/-- high-water mark after a configuration change whose need is `need?` -/
def heldO (held : Nat) : Option Nat → Nat
  | some n => max held n
  | none => held

theorem le_bumpO (held allocs : Nat) (o : Option Nat) : allocs ≤ bumpO held allocs o := by
  cases o with
  | none => exact Nat.le_refl _
  | some n => exact le_bump held allocs n

theorem le_heldO (held : Nat) (o : Option Nat) : held ≤ heldO held o := by
  cases o with
  | none => exact Nat.le_refl _
  | some n => exact Nat.le_max_left held n

theorem bumpO_of_le {held allocs B : Nat} {o : Option Nat} (h : ∀ n, o = some n → n ≤ B)
    (hB : B ≤ held) : bumpO held allocs o = allocs ∧ heldO held o = held := by
  cases o with
  | none => exact ⟨rfl, rfl⟩
  | some n =>
    have := h n rfl
    exact ⟨bump_of_le (by omega), Nat.max_eq_left (by omega)⟩

/-- a failed `reset` leaves the encoder exactly as it was (no well-formedness hypothesis) -/
theorem Encoder.reset_unchanged_of_fail {stale : Stale} {e : Encoder} {k r sb : Nat}
    (hne : (e.reset stale k r sb).1 ≠ .ok ()) : (e.reset stale k r sb).2 = e := by
  cases hi : e.inner with
  | none => unfold Encoder.reset; rw [hi]
  | some cur w =>
    rcases Encoder.reset_alloc_cases stale e k r sb hi with ⟨rate, w', _, _, h3, _⟩ | ⟨_, _, h⟩
    · rw [h3] at hne; exact absurd rfl hne
    · exact h

/-- **item 2, encoder `reset`**: a successful reset with rate `rate` bumps `allocs` iff the need
    exceeds the high-water mark, which becomes the maximum of the two -/
theorem Encoder.reset_allocs {stale : Stale} {e : Encoder} {k r sb : Nat} {cur rate : Rate}
    {w : EncWork} (hi : e.inner = .some cur w) (hr : rateFor e.kind cur k r = .ok rate)
    (hok : (e.reset stale k r sb).1 = .ok ()) :
    (e.reset stale k r sb).2.allocs
        = (if blocksNeeded (encWorkCount rate k r) sb > w.heldBlocks then w.allocs + 1
           else w.allocs)
      ∧ (e.reset stale k r sb).2.held
        = max w.heldBlocks (blocksNeeded (encWorkCount rate k r) sb) := by
  rcases Encoder.reset_alloc_cases stale e k r sb hi with
    ⟨rate', w', h1, _, h3, h4, h5⟩ | ⟨_, h, _⟩
  · rw [hr] at h1; cases h1
    rw [h3]; exact ⟨h4, h5⟩
  · exact absurd hok h

/-- the same with the rate named by `chooseRate` (hypotheses of `Encoder.reset_cases`) -/
theorem Encoder.reset_allocs_wf {stale : Stale} {e : Encoder} {k r sb : Nat} {cur rate : Rate}
    {w : EncWork} (hi : e.inner = .some cur w) (hh : e.kind = .high → cur = .high)
    (hl : e.kind = .low → cur = .low) (hr : chooseRate e.kind k r = .ok rate)
    (hok : (e.reset stale k r sb).1 = .ok ()) :
    (e.reset stale k r sb).2.allocs
        = (if blocksNeeded (encWorkCount rate k r) sb > w.heldBlocks then w.allocs + 1
           else w.allocs)
      ∧ (e.reset stale k r sb).2.held
        = max w.heldBlocks (blocksNeeded (encWorkCount rate k r) sb) :=
  Encoder.reset_allocs hi (by rw [rateFor_eq_chooseRate hh hl]; exact hr) hok

/-- a failed `reset` does not touch the counters -/
theorem Encoder.reset_allocs_of_fail {stale : Stale} {e : Encoder} {k r sb : Nat}
    (hne : (e.reset stale k r sb).1 ≠ .ok ()) :
    (e.reset stale k r sb).2.allocs = e.allocs ∧ (e.reset stale k r sb).2.held = e.held := by
  rw [Encoder.reset_unchanged_of_fail hne]; exact ⟨rfl, rfl⟩

theorem Encoder.allocs_eq {e : Encoder} {cur : Rate} {w : EncWork} (hi : e.inner = .some cur w) :
    e.allocs = w.allocs ∧ e.held = w.heldBlocks := by
  unfold Encoder.allocs Encoder.held; rw [hi]; exact ⟨rfl, rfl⟩

/-- `reset` in one formula: success is `resetNeed = some _`, and the counters move by it -/
theorem Encoder.reset_step (stale : Stale) (e : Encoder) (k r sb : Nat) :
    ((e.reset stale k r sb).1 = .ok () ↔ (e.resetNeed k r sb).isSome = true)
      ∧ (e.reset stale k r sb).2.allocs = bumpO e.held e.allocs (e.resetNeed k r sb)
      ∧ (e.reset stale k r sb).2.held = heldO e.held (e.resetNeed k r sb) := by
  cases hi : e.inner with
  | none =>
    have hn : e.resetNeed k r sb = none := by unfold Encoder.resetNeed; rw [hi]
    have hr : e.reset stale k r sb = (.panic "entered unreachable code", e) := by
      unfold Encoder.reset; rw [hi]
    rw [hn, hr]; exact ⟨by simp, rfl, rfl⟩
  | some cur w =>
    have hn : e.resetNeed k r sb = needOf (rateFor e.kind cur k r) encWorkCount k r sb := by
      unfold Encoder.resetNeed; rw [hi]
    obtain ⟨ha, hh⟩ := Encoder.allocs_eq hi
    rcases Encoder.reset_alloc_cases stale e k r sb hi with
      ⟨rate, w', h1, h2, h3, h4, h5⟩ | ⟨h1, h2, h3⟩
    · rw [hn, h1, needOf_ok h2, h3, ha, hh]
      exact ⟨by simp, h4, h5⟩
    · have : needOf (rateFor e.kind cur k r) encWorkCount k r sb = none := by
        cases hq : needOf (rateFor e.kind cur k r) encWorkCount k r sb with
        | none => rfl
        | some n =>
          obtain ⟨rate, q1, q2, _⟩ := needOf_some hq
          obtain ⟨er, q3⟩ := h1 rate q1
          rw [q2] at q3; cases q3
      rw [hn, this, h3]
      exact ⟨by simpa using h2, rfl, rfl⟩

/-- **corollary**: a reset to a configuration that fits into what is held never allocates
    (whatever its outcome) -/
theorem Encoder.reset_no_alloc_of_le {stale : Stale} {e : Encoder} {k r sb : Nat} {cur rate : Rate}
    {w : EncWork} (hi : e.inner = .some cur w) (hr : rateFor e.kind cur k r = .ok rate)
    (hle : blocksNeeded (encWorkCount rate k r) sb ≤ w.heldBlocks) :
    (e.reset stale k r sb).2.allocs = w.allocs ∧ (e.reset stale k r sb).2.held = w.heldBlocks := by
  rcases Encoder.reset_alloc_cases stale e k r sb hi with
    ⟨rate', w', h1, _, h3, h4, h5⟩ | ⟨_, _, h⟩
  · rw [hr] at h1; cases h1
    rw [h3]
    exact ⟨h4.trans (bump_of_le hle), h5.trans (Nat.max_eq_left hle)⟩
  · rw [h]; exact Encoder.allocs_eq hi

theorem Encoder.reset_no_alloc_of_le_wf {stale : Stale} {e : Encoder} {k r sb : Nat}
    {cur rate : Rate} {w : EncWork} (hi : e.inner = .some cur w)
    (hh : e.kind = .high → cur = .high) (hl : e.kind = .low → cur = .low)
    (hr : chooseRate e.kind k r = .ok rate)
    (hle : blocksNeeded (encWorkCount rate k r) sb ≤ w.heldBlocks) :
    (e.reset stale k r sb).2.allocs = w.allocs ∧ (e.reset stale k r sb).2.held = w.heldBlocks :=
  Encoder.reset_no_alloc_of_le hi (by rw [rateFor_eq_chooseRate hh hl]; exact hr) hle

/-- the counter never decreases over a reset, and moves by at most one -/
theorem Encoder.reset_allocs_mono (stale : Stale) (e : Encoder) (k r sb : Nat) :
    e.allocs ≤ (e.reset stale k r sb).2.allocs ∧ (e.reset stale k r sb).2.allocs ≤ e.allocs + 1
      ∧ e.held ≤ (e.reset stale k r sb).2.held := by
  obtain ⟨_, h1, h2⟩ := Encoder.reset_step stale e k r sb
  rw [h1, h2]
  refine ⟨le_bumpO _ _ _, ?_, le_heldO _ _⟩
  cases e.resetNeed k r sb with
  | none => exact Nat.le_succ _
  | some n => show bump _ _ _ ≤ _; unfold bump; split <;> omega

/-! #### `Encoder.new` (fresh, or recycling a work space through `into_parts`) -/

theorem Encoder.new_alloc_cases (stale : Stale) (kind : Kind) (sched : Sched) (k r sb : Nat)
    (work : Option EncWork) :
    (∃ rate w', chooseRate kind k r = .ok rate ∧ validateRate rate k r sb = .ok ()
        ∧ Encoder.new stale kind sched k r sb work
            = .ok { kind := kind, sched := sched, inner := .some rate w' }
        ∧ w'.allocs = bump (work.getD {}).heldBlocks (work.getD {}).allocs
            (blocksNeeded (encWorkCount rate k r) sb)
        ∧ w'.heldBlocks
            = max (work.getD {}).heldBlocks (blocksNeeded (encWorkCount rate k r) sb))
    ∨ ((∀ rate, chooseRate kind k r = .ok rate → ∃ er, validateRate rate k r sb = .error er)
        ∧ ∃ er, Encoder.new stale kind sched k r sb work = .err er) := by
  unfold Encoder.new
  cases hc : chooseRate kind k r with
  | error er => exact Or.inr ⟨nofun, er, rfl⟩
  | ok rate =>
    dsimp only
    rcases encResetWork_alloc_cases stale rate (work.getD {}) k r sb with
      ⟨hv, w', e1, e2, e3⟩ | ⟨er, e1, e2⟩
    · rw [e1]; exact Or.inl ⟨rate, w', rfl, hv, rfl, e2, e3⟩
    · rw [e2]; refine Or.inr ⟨?_, er, rfl⟩
      intro rate' h'; cases h'; exact ⟨er, e1⟩

/-- **item 2, recycling constructor**: `new(Some(work))` bumps `allocs` iff the need exceeds
    what `work` holds -/
theorem Encoder.new_allocs {stale : Stale} {kind : Kind} {sched : Sched} {k r sb : Nat}
    {w : EncWork} {rate : Rate} {e' : Encoder} (hr : chooseRate kind k r = .ok rate)
    (h : Encoder.new stale kind sched k r sb (some w) = .ok e') :
    e'.allocs = (if blocksNeeded (encWorkCount rate k r) sb > w.heldBlocks then w.allocs + 1
                 else w.allocs)
      ∧ e'.held = max w.heldBlocks (blocksNeeded (encWorkCount rate k r) sb) := by
  rcases Encoder.new_alloc_cases stale kind sched k r sb (some w) with
    ⟨rate', w', h1, _, h3, h4, h5⟩ | ⟨_, er, h3⟩
  · rw [hr] at h1; cases h1
    rw [h3] at h; cases h
    exact ⟨h4, h5⟩
  · rw [h3] at h; cases h

theorem Encoder.new_no_alloc_of_le {stale : Stale} {kind : Kind} {sched : Sched} {k r sb : Nat}
    {w : EncWork} {rate : Rate} {e' : Encoder} (hr : chooseRate kind k r = .ok rate)
    (h : Encoder.new stale kind sched k r sb (some w) = .ok e')
    (hle : blocksNeeded (encWorkCount rate k r) sb ≤ w.heldBlocks) :
    e'.allocs = w.allocs ∧ e'.held = w.heldBlocks := by
  obtain ⟨h1, h2⟩ := Encoder.new_allocs hr h
  rw [h1, h2, if_neg (by omega)]
  exact ⟨rfl, Nat.max_eq_left hle⟩

/-- an accepted configuration needs at least one block -/
theorem encNeed_pos {rate : Rate} {k r sb : Nat} (hv : validateRate rate k r sb = .ok ()) :
    0 < blocksNeeded (encWorkCount rate k r) sb := by
  rcases validateRate_cases rate k r sb with ⟨_, e2⟩ | ⟨_, _, e3⟩ | ⟨hs, hb, _⟩
  · rw [e2] at hv; cases hv
  · rw [e3] at hv; cases hv
  · have hsb := badShardSize_false_iff.mp hb
    unfold blocksNeeded
    apply Nat.mul_pos
    · cases rate with
      | high =>
        have h1 := supportsHigh_eq.mp hs
        have h2 := (high_geometry hs).2.1
        show 0 < highEncWorkCount k r
        omega
      | low =>
        have h1 := supportsLow_eq.mp hs
        have h2 := (low_geometry hs).2.1
        show 0 < lowEncWorkCount k r
        omega
    · omega

/-- a fresh encoder has performed exactly one allocation, of exactly its need -/
theorem Encoder.new_fresh {stale : Stale} {kind : Kind} {sched : Sched} {k r sb : Nat}
    {e' : Encoder} (h : Encoder.new stale kind sched k r sb none = .ok e') :
    e'.allocs = 1 ∧ encNewNeed kind k r sb = some e'.held ∧ 0 < e'.held := by
  rcases Encoder.new_alloc_cases stale kind sched k r sb none with
    ⟨rate, w', h1, h2, h3, h4, h5⟩ | ⟨_, er, h3⟩
  · rw [h3] at h; cases h
    have hp := encNeed_pos h2
    have h4' : w'.allocs = bump 0 0 (blocksNeeded (encWorkCount rate k r) sb) := h4
    have h5' : w'.heldBlocks = max 0 (blocksNeeded (encWorkCount rate k r) sb) := h5
    rw [bump_of_gt hp] at h4'
    rw [Nat.max_eq_right (Nat.zero_le _)] at h5'
    refine ⟨h4', ?_, ?_⟩
    · show encNewNeed kind k r sb = some w'.heldBlocks
      unfold encNewNeed; rw [h1, needOf_ok h2, h5']
    · show 0 < w'.heldBlocks
      rw [h5']; exact hp
  · rw [h3] at h; cases h


/-! #### decoders: shard memory and received-bitmap -/

/-- bitmap length a decoder configuration asks for: `max (obase + k) (rbase + r)` with the
    bases of the rate (`decResetWork`) -/
def decBitNeed (rate : Rate) (k r : Nat) : Nat :=
  match rate with
  | .high => max (npow2 r + k) (0 + r)
  | .low => max (0 + k) (npow2 k + r)

/-- what a successful `DecoderWork::reset` does to the four observables -/
def DecWork.Bumped (w w' : DecWork) (blocks bits : Nat) : Prop :=
  w'.allocs = bump w.heldBlocks w.allocs blocks
    ∧ w'.heldBlocks = max w.heldBlocks blocks
    ∧ w'.bitAllocs = bump w.received.size w.bitAllocs bits
    ∧ w'.received.size = max w.received.size bits

theorem decResetWork_alloc_cases (stale : Stale) (rate : Rate) (w : DecWork) (k r sb : Nat) :
    (validateRate rate k r sb = .ok () ∧ ∃ w', decResetWork stale rate w k r sb = .ok w'
        ∧ DecWork.Bumped w w' (blocksNeeded (decWorkCount rate k r) sb) (decBitNeed rate k r))
    ∨ (∃ er, validateRate rate k r sb = .error er ∧ decResetWork stale rate w k r sb = .err er) := by
  unfold decResetWork
  rcases validateRate_cases rate k r sb with ⟨_, h2⟩ | ⟨_, _, h3⟩ | ⟨_, h2, h3⟩
  · rw [h2]; exact Or.inr ⟨_, rfl, rfl⟩
  · rw [h3]; exact Or.inr ⟨_, rfl, rfl⟩
  · rw [h3]; refine Or.inl ⟨rfl, ?_⟩
    have := badShardSize_false_iff.mp h2
    cases rate <;>
      (dsimp only; unfold DecWork.reset; rw [if_neg (by omega)]
       exact ⟨_, rfl, rfl, rfl, rfl, Array.size_replicate ..⟩)

/-- blocks and bitmap length a decoder configuration change asks for (`none`: rejected) -/
def decNeedOf (rate? : Except Err Rate) (k r sb : Nat) : Option (Nat × Nat) :=
  match rate? with
  | .error _ => none
  | .ok rate =>
    match validateRate rate k r sb with
    | .error _ => none
    | .ok () => some (blocksNeeded (decWorkCount rate k r) sb, decBitNeed rate k r)

theorem decNeedOf_some {rate? : Except Err Rate} {k r sb : Nat} {n : Nat × Nat}
    (h : decNeedOf rate? k r sb = some n) :
    ∃ rate, rate? = .ok rate ∧ validateRate rate k r sb = .ok ()
      ∧ n = (blocksNeeded (decWorkCount rate k r) sb, decBitNeed rate k r) := by
  unfold decNeedOf at h
  cases rate? with
  | error er => cases h
  | ok rate =>
    dsimp only at h
    cases hv : validateRate rate k r sb with
    | error er => rw [hv] at h; cases h
    | ok u => rw [hv] at h; cases h; exact ⟨rate, rfl, hv, rfl⟩

theorem decNeedOf_ok {rate : Rate} {k r sb : Nat} (hv : validateRate rate k r sb = .ok ()) :
    decNeedOf (.ok rate) k r sb
      = some (blocksNeeded (decWorkCount rate k r) sb, decBitNeed rate k r) := by
  unfold decNeedOf; dsimp only; rw [hv]

def Decoder.resetNeed (d : Decoder) (k r sb : Nat) : Option (Nat × Nat) :=
  match d.inner with
  | .none => none
  | .some cur _ => decNeedOf (rateFor d.kind cur k r) k r sb

def decNewNeed (kind : Kind) (k r sb : Nat) : Option (Nat × Nat) :=
  decNeedOf (chooseRate kind k r) k r sb

/-- **`Decoder.reset`, complete description of the allocation behaviour** -/
theorem Decoder.reset_alloc_cases (stale : Stale) (d : Decoder) (k r sb : Nat) {cur : Rate}
    {w : DecWork} (hi : d.inner = .some cur w) :
    (∃ rate w', rateFor d.kind cur k r = .ok rate ∧ validateRate rate k r sb = .ok ()
        ∧ d.reset stale k r sb = (.ok (), { d with inner := .some rate w' })
        ∧ DecWork.Bumped w w' (blocksNeeded (decWorkCount rate k r) sb) (decBitNeed rate k r))
    ∨ ((∀ rate, rateFor d.kind cur k r = .ok rate → ∃ er, validateRate rate k r sb = .error er)
        ∧ (d.reset stale k r sb).1 ≠ .ok () ∧ (d.reset stale k r sb).2 = d) := by
  obtain ⟨kind, sched, inner⟩ := d
  dsimp only at hi ⊢
  subst hi
  unfold Decoder.reset
  dsimp only
  cases kind with
  | default =>
    dsimp only [rateFor]
    cases hc : chooseRate .default k r with
    | error er => exact Or.inr ⟨nofun, nofun, rfl⟩
    | ok rate =>
      dsimp only
      cases hb : badShardSize sb with
      | true =>
        refine Or.inr ⟨?_, by simp, by simp⟩
        intro rate' h'; cases h'
        cases hv : validateRate rate k r sb with
        | error er => exact ⟨er, rfl⟩
        | ok u => rw [validateRate_ok_size hv] at hb; cases hb
      | false =>
        have hv := chooseRate_default_validate hc hb
        rcases decResetWork_alloc_cases stale rate w k r sb with
          ⟨_, w', e1, e2⟩ | ⟨er, e1, _⟩
        · rw [e1]; exact Or.inl ⟨rate, w', rfl, hv, by simp, e2⟩
        · rw [hv] at e1; cases e1
  | high =>
    dsimp only [rateFor]
    rcases decResetWork_alloc_cases stale cur w k r sb with
      ⟨hv, w', e1, e2⟩ | ⟨er, e1, e2⟩
    · rw [e1]; exact Or.inl ⟨cur, w', rfl, hv, rfl, e2⟩
    · rw [e2]; refine Or.inr ⟨?_, nofun, rfl⟩
      intro rate' h'; cases h'; exact ⟨er, e1⟩
  | low =>
    dsimp only [rateFor]
    rcases decResetWork_alloc_cases stale cur w k r sb with
      ⟨hv, w', e1, e2⟩ | ⟨er, e1, e2⟩
    · rw [e1]; exact Or.inl ⟨cur, w', rfl, hv, rfl, e2⟩
    · rw [e2]; refine Or.inr ⟨?_, nofun, rfl⟩
      intro rate' h'; cases h'; exact ⟨er, e1⟩

theorem Decoder.reset_unchanged_of_fail {stale : Stale} {d : Decoder} {k r sb : Nat}
    (hne : (d.reset stale k r sb).1 ≠ .ok ()) : (d.reset stale k r sb).2 = d := by
  cases hi : d.inner with
  | none => unfold Decoder.reset; rw [hi]
  | some cur w =>
    rcases Decoder.reset_alloc_cases stale d k r sb hi with ⟨rate, w', _, _, h3, _⟩ | ⟨_, _, h⟩
    · rw [h3] at hne; exact absurd rfl hne
    · exact h

/-- **item 2, decoder `reset`**: shard memory as for the encoder; the bitmap grows (and
    `bitAllocs` is bumped) iff `max (obase + k) (rbase + r)` exceeds its length -/
theorem Decoder.reset_allocs {stale : Stale} {d : Decoder} {k r sb : Nat} {cur rate : Rate}
    {w : DecWork} (hi : d.inner = .some cur w) (hr : rateFor d.kind cur k r = .ok rate)
    (hok : (d.reset stale k r sb).1 = .ok ()) :
    (d.reset stale k r sb).2.allocs
        = (if blocksNeeded (decWorkCount rate k r) sb > w.heldBlocks then w.allocs + 1
           else w.allocs)
      ∧ (d.reset stale k r sb).2.held
        = max w.heldBlocks (blocksNeeded (decWorkCount rate k r) sb)
      ∧ (d.reset stale k r sb).2.bitAllocs
        = (if decBitNeed rate k r > w.received.size then w.bitAllocs + 1 else w.bitAllocs)
      ∧ (d.reset stale k r sb).2.bitLen = max w.received.size (decBitNeed rate k r) := by
  rcases Decoder.reset_alloc_cases stale d k r sb hi with
    ⟨rate', w', h1, _, h3, h4, h5, h6, h7⟩ | ⟨_, h, _⟩
  · rw [hr] at h1; cases h1
    rw [h3]; exact ⟨h4, h5, h6, h7⟩
  · exact absurd hok h

theorem Decoder.reset_allocs_wf {stale : Stale} {d : Decoder} {k r sb : Nat} {cur rate : Rate}
    {w : DecWork} (hi : d.inner = .some cur w) (hh : d.kind = .high → cur = .high)
    (hl : d.kind = .low → cur = .low) (hr : chooseRate d.kind k r = .ok rate)
    (hok : (d.reset stale k r sb).1 = .ok ()) :
    (d.reset stale k r sb).2.allocs
        = (if blocksNeeded (decWorkCount rate k r) sb > w.heldBlocks then w.allocs + 1
           else w.allocs)
      ∧ (d.reset stale k r sb).2.held
        = max w.heldBlocks (blocksNeeded (decWorkCount rate k r) sb)
      ∧ (d.reset stale k r sb).2.bitAllocs
        = (if decBitNeed rate k r > w.received.size then w.bitAllocs + 1 else w.bitAllocs)
      ∧ (d.reset stale k r sb).2.bitLen = max w.received.size (decBitNeed rate k r) :=
  Decoder.reset_allocs hi (by rw [rateFor_eq_chooseRate hh hl]; exact hr) hok

theorem Decoder.reset_allocs_of_fail {stale : Stale} {d : Decoder} {k r sb : Nat}
    (hne : (d.reset stale k r sb).1 ≠ .ok ()) :
    Decoder.SameAlloc d (d.reset stale k r sb).2 := by
  rw [Decoder.reset_unchanged_of_fail hne]; exact Decoder.SameAlloc.refl d

theorem Decoder.allocs_eq {d : Decoder} {cur : Rate} {w : DecWork} (hi : d.inner = .some cur w) :
    d.allocs = w.allocs ∧ d.held = w.heldBlocks ∧ d.bitAllocs = w.bitAllocs
      ∧ d.bitLen = w.received.size := by
  unfold Decoder.allocs Decoder.held Decoder.bitAllocs Decoder.bitLen; rw [hi]
  exact ⟨rfl, rfl, rfl, rfl⟩

/-- `Decoder.reset` in one formula -/
theorem Decoder.reset_step (stale : Stale) (d : Decoder) (k r sb : Nat) :
    ((d.reset stale k r sb).1 = .ok () ↔ (d.resetNeed k r sb).isSome = true)
      ∧ (d.reset stale k r sb).2.allocs
          = bumpO d.held d.allocs ((d.resetNeed k r sb).map Prod.fst)
      ∧ (d.reset stale k r sb).2.held = heldO d.held ((d.resetNeed k r sb).map Prod.fst)
      ∧ (d.reset stale k r sb).2.bitAllocs
          = bumpO d.bitLen d.bitAllocs ((d.resetNeed k r sb).map Prod.snd)
      ∧ (d.reset stale k r sb).2.bitLen
          = heldO d.bitLen ((d.resetNeed k r sb).map Prod.snd) := by
  cases hi : d.inner with
  | none =>
    have hn : d.resetNeed k r sb = none := by unfold Decoder.resetNeed; rw [hi]
    have hr : d.reset stale k r sb = (.panic "entered unreachable code", d) := by
      unfold Decoder.reset; rw [hi]
    rw [hn, hr]; exact ⟨by simp, rfl, rfl, rfl, rfl⟩
  | some cur w =>
    have hn : d.resetNeed k r sb = decNeedOf (rateFor d.kind cur k r) k r sb := by
      unfold Decoder.resetNeed; rw [hi]
    obtain ⟨ha, hh, hb, hl⟩ := Decoder.allocs_eq hi
    rcases Decoder.reset_alloc_cases stale d k r sb hi with
      ⟨rate, w', h1, h2, h3, h4, h5, h6, h7⟩ | ⟨h1, h2, h3⟩
    · rw [hn, h1, decNeedOf_ok h2, h3, ha, hh, hb, hl]
      exact ⟨by simp, h4, h5, h6, h7⟩
    · have : decNeedOf (rateFor d.kind cur k r) k r sb = none := by
        cases hq : decNeedOf (rateFor d.kind cur k r) k r sb with
        | none => rfl
        | some n =>
          obtain ⟨rate, q1, q2, _⟩ := decNeedOf_some hq
          obtain ⟨er, q3⟩ := h1 rate q1
          rw [q2] at q3; cases q3
      rw [hn, this, h3]
      exact ⟨by simpa using h2, rfl, rfl, rfl, rfl⟩

/-- **corollary**: a decoder reset that fits into what is held allocates neither shard memory nor
    bitmap (whatever its outcome) -/
theorem Decoder.reset_no_alloc_of_le {stale : Stale} {d : Decoder} {k r sb : Nat} {cur rate : Rate}
    {w : DecWork} (hi : d.inner = .some cur w) (hr : rateFor d.kind cur k r = .ok rate)
    (hle : blocksNeeded (decWorkCount rate k r) sb ≤ w.heldBlocks)
    (hbit : decBitNeed rate k r ≤ w.received.size) :
    (d.reset stale k r sb).2.allocs = w.allocs ∧ (d.reset stale k r sb).2.held = w.heldBlocks
      ∧ (d.reset stale k r sb).2.bitAllocs = w.bitAllocs
      ∧ (d.reset stale k r sb).2.bitLen = w.received.size := by
  rcases Decoder.reset_alloc_cases stale d k r sb hi with
    ⟨rate', w', h1, _, h3, h4, h5, h6, h7⟩ | ⟨_, _, h⟩
  · rw [hr] at h1; cases h1
    rw [h3]
    exact ⟨h4.trans (bump_of_le hle), h5.trans (Nat.max_eq_left hle),
      h6.trans (bump_of_le hbit), h7.trans (Nat.max_eq_left hbit)⟩
  · rw [h]; exact Decoder.allocs_eq hi

/-- the shard-memory part alone -/
theorem Decoder.reset_no_alloc_of_le_blocks {stale : Stale} {d : Decoder} {k r sb : Nat}
    {cur rate : Rate} {w : DecWork} (hi : d.inner = .some cur w)
    (hr : rateFor d.kind cur k r = .ok rate)
    (hle : blocksNeeded (decWorkCount rate k r) sb ≤ w.heldBlocks) :
    (d.reset stale k r sb).2.allocs = w.allocs ∧ (d.reset stale k r sb).2.held = w.heldBlocks := by
  rcases Decoder.reset_alloc_cases stale d k r sb hi with
    ⟨rate', w', h1, _, h3, h4, h5, _, _⟩ | ⟨_, _, h⟩
  · rw [hr] at h1; cases h1
    rw [h3]
    exact ⟨h4.trans (bump_of_le hle), h5.trans (Nat.max_eq_left hle)⟩
  · rw [h]; exact ⟨(Decoder.allocs_eq hi).1, (Decoder.allocs_eq hi).2.1⟩

theorem Decoder.new_alloc_cases (stale : Stale) (kind : Kind) (sched : Sched) (k r sb : Nat)
    (work : Option DecWork) :
    (∃ rate w', chooseRate kind k r = .ok rate ∧ validateRate rate k r sb = .ok ()
        ∧ Decoder.new stale kind sched k r sb work
            = .ok { kind := kind, sched := sched, inner := .some rate w' }
        ∧ DecWork.Bumped (work.getD {}) w' (blocksNeeded (decWorkCount rate k r) sb)
            (decBitNeed rate k r))
    ∨ ((∀ rate, chooseRate kind k r = .ok rate → ∃ er, validateRate rate k r sb = .error er)
        ∧ ∃ er, Decoder.new stale kind sched k r sb work = .err er) := by
  unfold Decoder.new
  cases hc : chooseRate kind k r with
  | error er => exact Or.inr ⟨nofun, er, rfl⟩
  | ok rate =>
    dsimp only
    rcases decResetWork_alloc_cases stale rate (work.getD {}) k r sb with
      ⟨hv, w', e1, e2⟩ | ⟨er, e1, e2⟩
    · rw [e1]; exact Or.inl ⟨rate, w', rfl, hv, rfl, e2⟩
    · rw [e2]; refine Or.inr ⟨?_, er, rfl⟩
      intro rate' h'; cases h'; exact ⟨er, e1⟩

/-- **item 2, recycling decoder constructor** -/
theorem Decoder.new_allocs {stale : Stale} {kind : Kind} {sched : Sched} {k r sb : Nat}
    {w : DecWork} {rate : Rate} {d' : Decoder} (hr : chooseRate kind k r = .ok rate)
    (h : Decoder.new stale kind sched k r sb (some w) = .ok d') :
    d'.allocs = (if blocksNeeded (decWorkCount rate k r) sb > w.heldBlocks then w.allocs + 1
                 else w.allocs)
      ∧ d'.held = max w.heldBlocks (blocksNeeded (decWorkCount rate k r) sb)
      ∧ d'.bitAllocs
        = (if decBitNeed rate k r > w.received.size then w.bitAllocs + 1 else w.bitAllocs)
      ∧ d'.bitLen = max w.received.size (decBitNeed rate k r) := by
  rcases Decoder.new_alloc_cases stale kind sched k r sb (some w) with
    ⟨rate', w', h1, _, h3, h4⟩ | ⟨_, er, h3⟩
  · rw [hr] at h1; cases h1
    rw [h3] at h; cases h
    exact h4
  · rw [h3] at h; cases h

theorem Decoder.new_no_alloc_of_le {stale : Stale} {kind : Kind} {sched : Sched} {k r sb : Nat}
    {w : DecWork} {rate : Rate} {d' : Decoder} (hr : chooseRate kind k r = .ok rate)
    (h : Decoder.new stale kind sched k r sb (some w) = .ok d')
    (hle : blocksNeeded (decWorkCount rate k r) sb ≤ w.heldBlocks)
    (hbit : decBitNeed rate k r ≤ w.received.size) :
    d'.allocs = w.allocs ∧ d'.held = w.heldBlocks ∧ d'.bitAllocs = w.bitAllocs
      ∧ d'.bitLen = w.received.size := by
  obtain ⟨h1, h2, h3, h4⟩ := Decoder.new_allocs hr h
  rw [h1, h2, h3, h4, if_neg (by omega), if_neg (by omega)]
  exact ⟨rfl, Nat.max_eq_left hle, rfl, Nat.max_eq_left hbit⟩

theorem decNeed_pos {rate : Rate} {k r sb : Nat} (hv : validateRate rate k r sb = .ok ()) :
    0 < blocksNeeded (decWorkCount rate k r) sb ∧ 0 < decBitNeed rate k r := by
  rcases validateRate_cases rate k r sb with ⟨_, e2⟩ | ⟨_, _, e3⟩ | ⟨hs, hb, _⟩
  · rw [e2] at hv; cases hv
  · rw [e3] at hv; cases hv
  · have hsb := badShardSize_false_iff.mp hb
    unfold blocksNeeded
    cases rate with
    | high =>
      have h1 := supportsHigh_eq.mp hs
      have h2 := (high_geometry hs).2.2.2.2.2.1
      refine ⟨Nat.mul_pos ?_ (by omega), ?_⟩
      · show 0 < highDecWorkCount k r
        omega
      · show 0 < max (npow2 r + k) (0 + r)
        omega
    | low =>
      have h1 := supportsLow_eq.mp hs
      have h2 := (low_geometry hs).2.2.2.2.2.1
      refine ⟨Nat.mul_pos ?_ (by omega), ?_⟩
      · show 0 < lowDecWorkCount k r
        omega
      · show 0 < max (0 + k) (npow2 k + r)
        omega

/-- a fresh decoder has performed exactly one allocation of each kind -/
theorem Decoder.new_fresh {stale : Stale} {kind : Kind} {sched : Sched} {k r sb : Nat}
    {d' : Decoder} (h : Decoder.new stale kind sched k r sb none = .ok d') :
    d'.allocs = 1 ∧ d'.bitAllocs = 1 ∧ decNewNeed kind k r sb = some (d'.held, d'.bitLen)
      ∧ 0 < d'.held ∧ 0 < d'.bitLen := by
  rcases Decoder.new_alloc_cases stale kind sched k r sb none with
    ⟨rate, w', h1, h2, h3, h4, h5, h6, h7⟩ | ⟨_, er, h3⟩
  · rw [h3] at h; cases h
    obtain ⟨hp, hq⟩ := decNeed_pos h2
    have h4' : w'.allocs = bump 0 0 (blocksNeeded (decWorkCount rate k r) sb) := h4
    have h5' : w'.heldBlocks = max 0 (blocksNeeded (decWorkCount rate k r) sb) := h5
    have h6' : w'.bitAllocs = bump 0 0 (decBitNeed rate k r) := h6
    have h7' : w'.received.size = max 0 (decBitNeed rate k r) := h7
    rw [bump_of_gt hp] at h4'
    rw [bump_of_gt hq] at h6'
    rw [Nat.max_eq_right (Nat.zero_le _)] at h5' h7'
    refine ⟨h4', h6', ?_, ?_, ?_⟩
    · show decNewNeed kind k r sb = some (w'.heldBlocks, w'.received.size)
      unfold decNewNeed; rw [h1, decNeedOf_ok h2, h5', h7']
    · show 0 < w'.heldBlocks
      rw [h5']; exact hp
    · show 0 < w'.received.size
      rw [h7']; exact hq
  · rw [h3] at h; cases h


/-! ### 3. histories: allocation events = configuration changes that exceed the high-water mark -/

/-- does a configuration change with need `need?` exceed the high-water mark `held`? -/
def isGrow (held : Nat) : Option Nat → Bool
  | some n => decide (n > held)
  | none => false

theorem bumpO_eq (held allocs : Nat) (o : Option Nat) :
    bumpO held allocs o = allocs + (if isGrow held o = true then 1 else 0) := by
  cases o with
  | none => rfl
  | some n =>
    show bump held allocs n = _
    unfold bump isGrow
    by_cases h : n > held
    · rw [if_pos h, if_pos (by simpa using h)]
    · rw [if_neg h, if_neg (by simpa using h)]; rfl

/-- operations on an encoder object.  `renew` is `into_parts` followed by
    `new(kind, …, Some(work))`: the work space moves into a new object. -/
inductive EncOp where
  | reset (k r sb : Nat)
  | add (shard : Array Nat)
  | encode
  | renew (kind : Kind) (sched : Sched) (k r sb : Nat)

/-- one operation (results are discarded, the object is kept).  `none`: a failed `renew`, which
    drops the work space together with the consumed object; the history of that work space ends. -/
def EncOp.step (stale : Stale) (e : Encoder) : EncOp → Option Encoder
  | .reset k r sb => some (e.reset stale k r sb).2
  | .add shard => some (e.add shard).2
  | .encode => some e.encode.2
  | .renew kind sched k r sb =>
    match e.intoParts with
    | .ok w =>
      match Encoder.new stale kind sched k r sb (some w) with
      | .ok e' => some e'
      | _ => none
    | _ => none

/-- blocks the operation asks for in state `e` (`none`: a round, or a configuration change that
    is rejected) -/
def EncOp.need (e : Encoder) : EncOp → Option Nat
  | .reset k r sb => e.resetNeed k r sb
  | .renew kind _ k r sb =>
    match e.inner with
    | .none => none
    | .some _ _ => encNewNeed kind k r sb
  | _ => none

/-- every operation moves the counters exactly by its need -/
theorem EncOp.step_alloc {stale : Stale} {e e' : Encoder} {op : EncOp}
    (h : op.step stale e = some e') :
    e'.allocs = bumpO e.held e.allocs (op.need e) ∧ e'.held = heldO e.held (op.need e) := by
  cases op with
  | reset k r sb =>
    cases h
    exact (Encoder.reset_step stale e k r sb).2
  | add shard => cases h; exact e.add_alloc shard
  | encode => cases h; exact e.encode_alloc
  | renew kind sched k r sb =>
    unfold EncOp.step Encoder.intoParts at h
    cases hi : e.inner with
    | none => rw [hi] at h; cases h
    | some cur w =>
      rw [hi] at h; dsimp only at h
      obtain ⟨ha, hh⟩ := Encoder.allocs_eq hi
      have hn : (EncOp.renew kind sched k r sb).need e = encNewNeed kind k r sb := by
        unfold EncOp.need; rw [hi]
      rcases Encoder.new_alloc_cases stale kind sched k r sb (some w) with
        ⟨rate, w', h1, h2, h3, h4, h5⟩ | ⟨_, er, h3⟩
      · rw [h3] at h; cases h
        rw [hn, ha, hh]; unfold encNewNeed; rw [h1, needOf_ok h2]
        exact ⟨h4, h5⟩
      · rw [h3] at h; cases h

/-- run a history; `none` if a `renew` failed on the way (the work space is gone) -/
def EncOp.run (stale : Stale) : Encoder → List EncOp → Option Encoder
  | e, [] => some e
  | e, op :: ops =>
    match op.step stale e with
    | some e' => EncOp.run stale e' ops
    | none => none

/-- number of operations of the history whose need exceeded the high-water mark at that time -/
def EncOp.growCount (stale : Stale) : Encoder → List EncOp → Nat
  | _, [] => 0
  | e, op :: ops =>
    (if isGrow e.held (op.need e) = true then 1 else 0) +
      match op.step stale e with
      | some e' => EncOp.growCount stale e' ops
      | none => 0

/-- every need of the history (evaluated in the state it meets) is at most `B` -/
def EncOp.Bounded (stale : Stale) (B : Nat) : Encoder → List EncOp → Prop
  | _, [] => True
  | e, op :: ops =>
    (∀ n, op.need e = some n → n ≤ B) ∧ ∀ e', op.step stale e = some e' → EncOp.Bounded stale B e' ops

/-- **item 3**: along any history the allocation counter grows exactly by the number of
    configuration changes whose need exceeded the high-water mark at that time; counter and
    high-water mark never decrease -/
theorem EncOp.run_allocs {stale : Stale} : ∀ (ops : List EncOp) (e e' : Encoder),
    EncOp.run stale e ops = some e' →
      e'.allocs = e.allocs + EncOp.growCount stale e ops ∧ e.allocs ≤ e'.allocs
        ∧ e.held ≤ e'.held
  | [], e, e', h => by
    cases h; exact ⟨rfl, Nat.le_refl _, Nat.le_refl _⟩
  | op :: ops, e, e', h => by
    unfold EncOp.run at h
    unfold EncOp.growCount
    cases hs : op.step stale e with
    | none => rw [hs] at h; cases h
    | some e1 =>
      rw [hs] at h; dsimp only at h ⊢
      obtain ⟨i1, i2, i3⟩ := EncOp.run_allocs ops e1 e' h
      obtain ⟨s1, s2⟩ := EncOp.step_alloc hs
      have b := bumpO_eq e.held e.allocs (op.need e)
      have l := le_heldO e.held (op.need e)
      omega

theorem EncOp.allocs_mono {stale : Stale} {ops : List EncOp} {e e' : Encoder}
    (h : EncOp.run stale e ops = some e') : e.allocs ≤ e'.allocs :=
  (EncOp.run_allocs ops e e' h).2.1

theorem EncOp.held_mono {stale : Stale} {ops : List EncOp} {e e' : Encoder}
    (h : EncOp.run stale e ops = some e') : e.held ≤ e'.held :=
  (EncOp.run_allocs ops e e' h).2.2

/-- a history none of whose configurations needs more than is held does not allocate at all -/
theorem EncOp.run_no_alloc {stale : Stale} {B : Nat} : ∀ (ops : List EncOp) (e e' : Encoder),
    EncOp.Bounded stale B e ops → B ≤ e.held → EncOp.run stale e ops = some e' →
      e'.allocs = e.allocs ∧ e'.held = e.held ∧ EncOp.growCount stale e ops = 0
  | [], e, e', _, _, h => by
    cases h; exact ⟨rfl, rfl, rfl⟩
  | op :: ops, e, e', hb, hB, h => by
    unfold EncOp.run at h
    unfold EncOp.growCount
    obtain ⟨hb1, hb2⟩ := hb
    cases hs : op.step stale e with
    | none => rw [hs] at h; cases h
    | some e1 =>
      rw [hs] at h; dsimp only at h ⊢
      obtain ⟨s1, s2⟩ := EncOp.step_alloc hs
      obtain ⟨b1, b2⟩ := bumpO_of_le (allocs := e.allocs) hb1 hB
      rw [b1] at s1; rw [b2] at s2
      obtain ⟨i1, i2, i3⟩ := EncOp.run_no_alloc ops e1 e' (hb2 e1 hs) (by omega) h
      have b := bumpO_eq e.held e.allocs (op.need e)
      rw [b1] at b
      omega

/-- **item 3, corollary**: a fresh encoder followed by any history in which every configuration
    needs at most what the first one needed performs exactly one allocation -/
theorem EncOp.history_one_alloc {stale : Stale} {kind : Kind} {sched : Sched} {k r sb : Nat}
    {e0 e' : Encoder} {ops : List EncOp}
    (h0 : Encoder.new stale kind sched k r sb none = .ok e0)
    (hb : EncOp.Bounded stale e0.held e0 ops) (h : EncOp.run stale e0 ops = some e') :
    e'.allocs = 1 ∧ e'.held = e0.held ∧ encNewNeed kind k r sb = some e0.held := by
  obtain ⟨f1, f2, _⟩ := Encoder.new_fresh h0
  obtain ⟨r1, r2, _⟩ := EncOp.run_no_alloc ops e0 e' hb (Nat.le_refl _) h
  exact ⟨r1.trans f1, r2, f2⟩

/-! #### the same for decoders (shard memory and bitmap) -/

inductive DecOp where
  | reset (k r sb : Nat)
  | addOriginal (index : Nat) (shard : Array Nat)
  | addRecovery (index : Nat) (shard : Array Nat)
  | decode (lw : Array Nat)
  | renew (kind : Kind) (sched : Sched) (k r sb : Nat)

def DecOp.step (stale : Stale) (d : Decoder) : DecOp → Option Decoder
  | .reset k r sb => some (d.reset stale k r sb).2
  | .addOriginal i s => some (d.addOriginal i s).2
  | .addRecovery i s => some (d.addRecovery i s).2
  | .decode lw => some (d.decode lw).2
  | .renew kind sched k r sb =>
    match d.intoParts with
    | .ok w =>
      match Decoder.new stale kind sched k r sb (some w) with
      | .ok d' => some d'
      | _ => none
    | _ => none

/-- (blocks, bitmap length) the operation asks for in state `d` -/
def DecOp.need (d : Decoder) : DecOp → Option (Nat × Nat)
  | .reset k r sb => d.resetNeed k r sb
  | .renew kind _ k r sb =>
    match d.inner with
    | .none => none
    | .some _ _ => decNewNeed kind k r sb
  | _ => none

theorem DecOp.step_alloc {stale : Stale} {d d' : Decoder} {op : DecOp}
    (h : op.step stale d = some d') :
    d'.allocs = bumpO d.held d.allocs ((op.need d).map Prod.fst)
      ∧ d'.held = heldO d.held ((op.need d).map Prod.fst)
      ∧ d'.bitAllocs = bumpO d.bitLen d.bitAllocs ((op.need d).map Prod.snd)
      ∧ d'.bitLen = heldO d.bitLen ((op.need d).map Prod.snd) := by
  cases op with
  | reset k r sb =>
    cases h
    exact (Decoder.reset_step stale d k r sb).2
  | addOriginal i s =>
    cases h; obtain ⟨a, b, c, e⟩ := d.addOriginal_alloc i s; exact ⟨a, c, b, e⟩
  | addRecovery i s =>
    cases h; obtain ⟨a, b, c, e⟩ := d.addRecovery_alloc i s; exact ⟨a, c, b, e⟩
  | decode lw =>
    cases h; obtain ⟨a, b, c, e⟩ := d.decode_alloc lw; exact ⟨a, c, b, e⟩
  | renew kind sched k r sb =>
    unfold DecOp.step Decoder.intoParts at h
    cases hi : d.inner with
    | none => rw [hi] at h; cases h
    | some cur w =>
      rw [hi] at h; dsimp only at h
      obtain ⟨ha, hh, hb, hl⟩ := Decoder.allocs_eq hi
      have hn : (DecOp.renew kind sched k r sb).need d = decNewNeed kind k r sb := by
        unfold DecOp.need; rw [hi]
      rcases Decoder.new_alloc_cases stale kind sched k r sb (some w) with
        ⟨rate, w', h1, h2, h3, h4⟩ | ⟨_, er, h3⟩
      · rw [h3] at h; cases h
        rw [hn, ha, hh, hb, hl]; unfold decNewNeed; rw [h1, decNeedOf_ok h2]
        exact h4
      · rw [h3] at h; cases h

def DecOp.run (stale : Stale) : Decoder → List DecOp → Option Decoder
  | d, [] => some d
  | d, op :: ops =>
    match op.step stale d with
    | some d' => DecOp.run stale d' ops
    | none => none

/-- operations whose block need exceeded the high-water mark at that time -/
def DecOp.growCount (stale : Stale) : Decoder → List DecOp → Nat
  | _, [] => 0
  | d, op :: ops =>
    (if isGrow d.held ((op.need d).map Prod.fst) = true then 1 else 0) +
      match op.step stale d with
      | some d' => DecOp.growCount stale d' ops
      | none => 0

/-- operations whose bitmap need exceeded the bitmap length at that time -/
def DecOp.bitGrowCount (stale : Stale) : Decoder → List DecOp → Nat
  | _, [] => 0
  | d, op :: ops =>
    (if isGrow d.bitLen ((op.need d).map Prod.snd) = true then 1 else 0) +
      match op.step stale d with
      | some d' => DecOp.bitGrowCount stale d' ops
      | none => 0

def DecOp.Bounded (stale : Stale) (B C : Nat) : Decoder → List DecOp → Prop
  | _, [] => True
  | d, op :: ops =>
    (∀ n, op.need d = some n → n.1 ≤ B ∧ n.2 ≤ C)
      ∧ ∀ d', op.step stale d = some d' → DecOp.Bounded stale B C d' ops

theorem DecOp.run_allocs {stale : Stale} : ∀ (ops : List DecOp) (d d' : Decoder),
    DecOp.run stale d ops = some d' →
      d'.allocs = d.allocs + DecOp.growCount stale d ops
        ∧ d'.bitAllocs = d.bitAllocs + DecOp.bitGrowCount stale d ops
        ∧ d.allocs ≤ d'.allocs ∧ d.bitAllocs ≤ d'.bitAllocs
        ∧ d.held ≤ d'.held ∧ d.bitLen ≤ d'.bitLen
  | [], d, d', h => by
    cases h; exact ⟨rfl, rfl, Nat.le_refl _, Nat.le_refl _, Nat.le_refl _, Nat.le_refl _⟩
  | op :: ops, d, d', h => by
    unfold DecOp.run at h
    unfold DecOp.growCount DecOp.bitGrowCount
    cases hs : op.step stale d with
    | none => rw [hs] at h; cases h
    | some d1 =>
      rw [hs] at h; dsimp only at h ⊢
      obtain ⟨i1, i2, i3, i4, i5, i6⟩ := DecOp.run_allocs ops d1 d' h
      obtain ⟨s1, s2, s3, s4⟩ := DecOp.step_alloc hs
      have b1 := bumpO_eq d.held d.allocs ((op.need d).map Prod.fst)
      have b2 := bumpO_eq d.bitLen d.bitAllocs ((op.need d).map Prod.snd)
      have l1 := le_heldO d.held ((op.need d).map Prod.fst)
      have l2 := le_heldO d.bitLen ((op.need d).map Prod.snd)
      omega

theorem DecOp.run_no_alloc {stale : Stale} {B C : Nat} : ∀ (ops : List DecOp) (d d' : Decoder),
    DecOp.Bounded stale B C d ops → B ≤ d.held → C ≤ d.bitLen → DecOp.run stale d ops = some d' →
      Decoder.SameAlloc d d' ∧ DecOp.growCount stale d ops = 0
        ∧ DecOp.bitGrowCount stale d ops = 0
  | [], d, d', _, _, _, h => by
    cases h; exact ⟨Decoder.SameAlloc.refl d, rfl, rfl⟩
  | op :: ops, d, d', hb, hB, hC, h => by
    unfold DecOp.run at h
    unfold DecOp.growCount DecOp.bitGrowCount
    obtain ⟨hb1, hb2⟩ := hb
    cases hs : op.step stale d with
    | none => rw [hs] at h; cases h
    | some d1 =>
      rw [hs] at h; dsimp only at h ⊢
      obtain ⟨s1, s2, s3, s4⟩ := DecOp.step_alloc hs
      have hf : ∀ n, (op.need d).map Prod.fst = some n → n ≤ B := by
        intro n hn
        cases hq : op.need d with
        | none => rw [hq] at hn; cases hn
        | some p => rw [hq] at hn; cases hn; exact (hb1 p hq).1
      have hg : ∀ n, (op.need d).map Prod.snd = some n → n ≤ C := by
        intro n hn
        cases hq : op.need d with
        | none => rw [hq] at hn; cases hn
        | some p => rw [hq] at hn; cases hn; exact (hb1 p hq).2
      obtain ⟨b1, b2⟩ := bumpO_of_le (allocs := d.allocs) hf hB
      obtain ⟨c1, c2⟩ := bumpO_of_le (allocs := d.bitAllocs) hg hC
      rw [b1] at s1; rw [b2] at s2; rw [c1] at s3; rw [c2] at s4
      obtain ⟨⟨i1, i2, i3, i4⟩, j1, j2⟩ :=
        DecOp.run_no_alloc ops d1 d' (hb2 d1 hs) (by omega) (by omega) h
      have e1 := bumpO_eq d.held d.allocs ((op.need d).map Prod.fst)
      have e2 := bumpO_eq d.bitLen d.bitAllocs ((op.need d).map Prod.snd)
      rw [b1] at e1; rw [c1] at e2
      refine ⟨⟨?_, ?_, ?_, ?_⟩, ?_, ?_⟩ <;> omega

theorem DecOp.history_one_alloc {stale : Stale} {kind : Kind} {sched : Sched} {k r sb : Nat}
    {d0 d' : Decoder} {ops : List DecOp}
    (h0 : Decoder.new stale kind sched k r sb none = .ok d0)
    (hb : DecOp.Bounded stale d0.held d0.bitLen d0 ops) (h : DecOp.run stale d0 ops = some d') :
    d'.allocs = 1 ∧ d'.bitAllocs = 1 ∧ d'.held = d0.held ∧ d'.bitLen = d0.bitLen
      ∧ decNewNeed kind k r sb = some (d0.held, d0.bitLen) := by
  obtain ⟨f1, f2, f3, _⟩ := Decoder.new_fresh h0
  obtain ⟨⟨r1, r2, r3, r4⟩, _⟩ :=
    DecOp.run_no_alloc ops d0 d' hb (Nat.le_refl _) (Nat.le_refl _) h
  exact ⟨r1.trans f1, r2.trans f2, r3, r4, f3⟩


/-! #### the bound as a condition on the list of configurations alone -/

/-- the hypotheses of `Encoder.reset_cases`: an inner codec consistent with the flavour -/
def Encoder.WF (e : Encoder) : Prop :=
  ∃ cur w, e.inner = .some cur w ∧ (e.kind = .high → cur = .high) ∧ (e.kind = .low → cur = .low)

def Decoder.WF (d : Decoder) : Prop :=
  ∃ cur w, d.inner = .some cur w ∧ (d.kind = .high → cur = .high) ∧ (d.kind = .low → cur = .low)

theorem Encoder.add_wf {e : Encoder} (h : e.WF) (shard : Array Nat) :
    (e.add shard).2.WF ∧ (e.add shard).2.kind = e.kind := by
  obtain ⟨cur, w, hi, hh, hl⟩ := h
  obtain ⟨kind, sched, inner⟩ := e
  dsimp only at hi hh hl
  subst hi
  unfold Encoder.add; dsimp only
  cases w.add shard with
  | ok w' => exact ⟨⟨cur, w', rfl, hh, hl⟩, rfl⟩
  | err er => exact ⟨⟨cur, w, rfl, hh, hl⟩, rfl⟩
  | panic why => exact ⟨⟨cur, w, rfl, hh, hl⟩, rfl⟩

theorem Encoder.encode_wf {e : Encoder} (h : e.WF) : e.encode.2.WF ∧ e.encode.2.kind = e.kind := by
  obtain ⟨cur, w, hi, hh, hl⟩ := h
  obtain ⟨kind, sched, inner⟩ := e
  dsimp only at hi hh hl
  subst hi
  unfold Encoder.encode; dsimp only
  split
  · exact ⟨⟨cur, _, rfl, hh, hl⟩, rfl⟩
  · exact ⟨⟨cur, w, rfl, hh, hl⟩, rfl⟩

theorem Encoder.reset_kind (stale : Stale) (e : Encoder) (k r sb : Nat) :
    (e.reset stale k r sb).2.kind = e.kind := by
  cases hi : e.inner with
  | none => unfold Encoder.reset; rw [hi]
  | some cur w =>
    rcases Encoder.reset_alloc_cases stale e k r sb hi with ⟨rate, w', _, _, h3, _⟩ | ⟨_, _, h⟩
    · rw [h3]
    · rw [h]

theorem Encoder.new_kind {stale : Stale} {kind : Kind} {sched : Sched} {k r sb : Nat}
    {work : Option EncWork} {e : Encoder} (h : Encoder.new stale kind sched k r sb work = .ok e) :
    e.kind = kind := by
  rcases Encoder.new_alloc_cases stale kind sched k r sb work with
    ⟨rate, w', _, _, h3, _⟩ | ⟨_, er, h3⟩
  · rw [h3] at h; cases h; rfl
  · rw [h3] at h; cases h

/-- on a well-formed encoder the need of a reset is the need of the constructor -/
theorem Encoder.resetNeed_eq_newNeed {e : Encoder} {cur : Rate} {w : EncWork}
    (hi : e.inner = .some cur w) (hh : e.kind = .high → cur = .high)
    (hl : e.kind = .low → cur = .low) (k r sb : Nat) :
    e.resetNeed k r sb = encNewNeed e.kind k r sb := by
  unfold Encoder.resetNeed encNewNeed; rw [hi]; dsimp only
  rw [rateFor_eq_chooseRate hh hl]

/-- every configuration of the history (a reset on the current flavour, or a renew with a new
    flavour) needs at most `B` blocks: a condition on the list alone -/
def EncOp.BoundedCfg (B : Nat) : Kind → List EncOp → Prop
  | _, [] => True
  | kind, .reset k r sb :: ops =>
    (∀ n, encNewNeed kind k r sb = some n → n ≤ B) ∧ EncOp.BoundedCfg B kind ops
  | _, .renew kind' _ k r sb :: ops =>
    (∀ n, encNewNeed kind' k r sb = some n → n ≤ B) ∧ EncOp.BoundedCfg B kind' ops
  | kind, .add _ :: ops => EncOp.BoundedCfg B kind ops
  | kind, .encode :: ops => EncOp.BoundedCfg B kind ops

theorem EncOp.bounded_of_cfg {stale : Stale} {B : Nat} : ∀ (ops : List EncOp) (e : Encoder),
    e.WF → EncOp.BoundedCfg B e.kind ops → EncOp.Bounded stale B e ops
  | [], _, _, _ => trivial
  | .reset k r sb :: ops, e, hw, hc => by
    obtain ⟨cur, w, hi, hh, hl⟩ := hw
    refine ⟨?_, ?_⟩
    · intro n hn
      exact hc.1 n (by rw [← Encoder.resetNeed_eq_newNeed hi hh hl]; exact hn)
    · intro e' he'; cases he'
      refine EncOp.bounded_of_cfg ops _ (Encoder.reset_wf hi hh hl) ?_
      rw [Encoder.reset_kind]; exact hc.2
  | .add shard :: ops, e, hw, hc => by
    refine ⟨nofun, ?_⟩
    intro e' he'; cases he'
    refine EncOp.bounded_of_cfg ops _ (Encoder.add_wf hw shard).1 ?_
    rw [(Encoder.add_wf hw shard).2]; exact hc
  | .encode :: ops, e, hw, hc => by
    refine ⟨nofun, ?_⟩
    intro e' he'; cases he'
    refine EncOp.bounded_of_cfg ops _ (Encoder.encode_wf hw).1 ?_
    rw [(Encoder.encode_wf hw).2]; exact hc
  | .renew kind' sched k r sb :: ops, e, hw, hc => by
    obtain ⟨cur, w, hi, hh, hl⟩ := hw
    refine ⟨?_, ?_⟩
    · intro n hn
      have : (EncOp.renew kind' sched k r sb).need e = encNewNeed kind' k r sb := by
        unfold EncOp.need; rw [hi]
      exact hc.1 n (by rw [← this]; exact hn)
    · intro e' he'
      unfold EncOp.step Encoder.intoParts at he'
      rw [hi] at he'; dsimp only at he'
      cases hn : Encoder.new stale kind' sched k r sb (some w) with
      | ok e1 =>
        rw [hn] at he'; cases he'
        refine EncOp.bounded_of_cfg ops _ (Encoder.new_wf hn) ?_
        rw [Encoder.new_kind hn]; exact hc.2
      | err er => rw [hn] at he'; cases he'
      | panic why => rw [hn] at he'; cases he'

/-- **item 3, corollary, in terms of the configurations alone**: create an encoder, then run any
    history of rounds, resets and renews none of whose configurations needs more blocks than the
    first one: exactly one allocation happens -/
theorem EncOp.history_one_alloc_cfg {stale : Stale} {kind : Kind} {sched : Sched} {k r sb B : Nat}
    {e0 e' : Encoder} {ops : List EncOp}
    (h0 : Encoder.new stale kind sched k r sb none = .ok e0)
    (hB : encNewNeed kind k r sb = some B)
    (hc : EncOp.BoundedCfg B kind ops) (h : EncOp.run stale e0 ops = some e') :
    e'.allocs = 1 ∧ e'.held = B := by
  obtain ⟨_, f2, _⟩ := Encoder.new_fresh h0
  have hh : e0.held = B := (Option.some.inj (hB.symm.trans f2)).symm
  have hb : EncOp.Bounded stale e0.held e0 ops := by
    rw [hh]
    exact EncOp.bounded_of_cfg ops e0 (Encoder.new_wf h0) (by rw [Encoder.new_kind h0]; exact hc)
  obtain ⟨r1, r2, _⟩ := EncOp.history_one_alloc h0 hb h
  exact ⟨r1, r2.trans hh⟩

/-! decoders -/

theorem Decoder.addOriginal_wf {d : Decoder} (h : d.WF) (index : Nat) (shard : Array Nat) :
    (d.addOriginal index shard).2.WF ∧ (d.addOriginal index shard).2.kind = d.kind := by
  obtain ⟨cur, w, hi, hh, hl⟩ := h
  obtain ⟨kind, sched, inner⟩ := d
  dsimp only at hi hh hl
  subst hi
  unfold Decoder.addOriginal; dsimp only
  cases w.addOriginal index shard with
  | ok w' => exact ⟨⟨cur, w', rfl, hh, hl⟩, rfl⟩
  | err er => exact ⟨⟨cur, w, rfl, hh, hl⟩, rfl⟩
  | panic why => exact ⟨⟨cur, w, rfl, hh, hl⟩, rfl⟩

theorem Decoder.addRecovery_wf {d : Decoder} (h : d.WF) (index : Nat) (shard : Array Nat) :
    (d.addRecovery index shard).2.WF ∧ (d.addRecovery index shard).2.kind = d.kind := by
  obtain ⟨cur, w, hi, hh, hl⟩ := h
  obtain ⟨kind, sched, inner⟩ := d
  dsimp only at hi hh hl
  subst hi
  unfold Decoder.addRecovery; dsimp only
  cases w.addRecovery index shard with
  | ok w' => exact ⟨⟨cur, w', rfl, hh, hl⟩, rfl⟩
  | err er => exact ⟨⟨cur, w, rfl, hh, hl⟩, rfl⟩
  | panic why => exact ⟨⟨cur, w, rfl, hh, hl⟩, rfl⟩

theorem Decoder.decode_wf {d : Decoder} (h : d.WF) (lw : Array Nat) :
    (d.decode lw).2.WF ∧ (d.decode lw).2.kind = d.kind := by
  obtain ⟨cur, w, hi, hh, hl⟩ := h
  obtain ⟨kind, sched, inner⟩ := d
  dsimp only at hi hh hl
  subst hi
  unfold Decoder.decode; dsimp only
  split
  · exact ⟨⟨cur, w, rfl, hh, hl⟩, rfl⟩
  · split
    · exact ⟨⟨cur, _, rfl, hh, hl⟩, rfl⟩
    · exact ⟨⟨cur, _, rfl, hh, hl⟩, rfl⟩

theorem Decoder.reset_kind (stale : Stale) (d : Decoder) (k r sb : Nat) :
    (d.reset stale k r sb).2.kind = d.kind := by
  cases hi : d.inner with
  | none => unfold Decoder.reset; rw [hi]
  | some cur w =>
    rcases Decoder.reset_alloc_cases stale d k r sb hi with ⟨rate, w', _, _, h3, _⟩ | ⟨_, _, h⟩
    · rw [h3]
    · rw [h]

theorem Decoder.new_kind {stale : Stale} {kind : Kind} {sched : Sched} {k r sb : Nat}
    {work : Option DecWork} {d : Decoder} (h : Decoder.new stale kind sched k r sb work = .ok d) :
    d.kind = kind := by
  rcases Decoder.new_alloc_cases stale kind sched k r sb work with
    ⟨rate, w', _, _, h3, _⟩ | ⟨_, er, h3⟩
  · rw [h3] at h; cases h; rfl
  · rw [h3] at h; cases h

theorem Decoder.resetNeed_eq_newNeed {d : Decoder} {cur : Rate} {w : DecWork}
    (hi : d.inner = .some cur w) (hh : d.kind = .high → cur = .high)
    (hl : d.kind = .low → cur = .low) (k r sb : Nat) :
    d.resetNeed k r sb = decNewNeed d.kind k r sb := by
  unfold Decoder.resetNeed decNewNeed; rw [hi]; dsimp only
  rw [rateFor_eq_chooseRate hh hl]

/-- every configuration of the history needs at most `B` blocks and a bitmap of at most `C` -/
def DecOp.BoundedCfg (B C : Nat) : Kind → List DecOp → Prop
  | _, [] => True
  | kind, .reset k r sb :: ops =>
    (∀ n, decNewNeed kind k r sb = some n → n.1 ≤ B ∧ n.2 ≤ C) ∧ DecOp.BoundedCfg B C kind ops
  | _, .renew kind' _ k r sb :: ops =>
    (∀ n, decNewNeed kind' k r sb = some n → n.1 ≤ B ∧ n.2 ≤ C) ∧ DecOp.BoundedCfg B C kind' ops
  | kind, .addOriginal _ _ :: ops => DecOp.BoundedCfg B C kind ops
  | kind, .addRecovery _ _ :: ops => DecOp.BoundedCfg B C kind ops
  | kind, .decode _ :: ops => DecOp.BoundedCfg B C kind ops

theorem DecOp.bounded_of_cfg {stale : Stale} {B C : Nat} : ∀ (ops : List DecOp) (d : Decoder),
    d.WF → DecOp.BoundedCfg B C d.kind ops → DecOp.Bounded stale B C d ops
  | [], _, _, _ => trivial
  | .reset k r sb :: ops, d, hw, hc => by
    obtain ⟨cur, w, hi, hh, hl⟩ := hw
    refine ⟨?_, ?_⟩
    · intro n hn
      exact hc.1 n (by rw [← Decoder.resetNeed_eq_newNeed hi hh hl]; exact hn)
    · intro d' hd'; cases hd'
      refine DecOp.bounded_of_cfg ops _ (Decoder.reset_wf hi hh hl) ?_
      rw [Decoder.reset_kind]; exact hc.2
  | .addOriginal i s :: ops, d, hw, hc => by
    refine ⟨nofun, ?_⟩
    intro d' hd'; cases hd'
    refine DecOp.bounded_of_cfg ops _ (Decoder.addOriginal_wf hw i s).1 ?_
    rw [(Decoder.addOriginal_wf hw i s).2]; exact hc
  | .addRecovery i s :: ops, d, hw, hc => by
    refine ⟨nofun, ?_⟩
    intro d' hd'; cases hd'
    refine DecOp.bounded_of_cfg ops _ (Decoder.addRecovery_wf hw i s).1 ?_
    rw [(Decoder.addRecovery_wf hw i s).2]; exact hc
  | .decode lw :: ops, d, hw, hc => by
    refine ⟨nofun, ?_⟩
    intro d' hd'; cases hd'
    refine DecOp.bounded_of_cfg ops _ (Decoder.decode_wf hw lw).1 ?_
    rw [(Decoder.decode_wf hw lw).2]; exact hc
  | .renew kind' sched k r sb :: ops, d, hw, hc => by
    obtain ⟨cur, w, hi, hh, hl⟩ := hw
    refine ⟨?_, ?_⟩
    · intro n hn
      have : (DecOp.renew kind' sched k r sb).need d = decNewNeed kind' k r sb := by
        unfold DecOp.need; rw [hi]
      exact hc.1 n (by rw [← this]; exact hn)
    · intro d' hd'
      unfold DecOp.step Decoder.intoParts at hd'
      rw [hi] at hd'; dsimp only at hd'
      cases hn : Decoder.new stale kind' sched k r sb (some w) with
      | ok d1 =>
        rw [hn] at hd'; cases hd'
        refine DecOp.bounded_of_cfg ops _ (Decoder.new_wf hn) ?_
        rw [Decoder.new_kind hn]; exact hc.2
      | err er => rw [hn] at hd'; cases hd'
      | panic why => rw [hn] at hd'; cases hd'

theorem DecOp.history_one_alloc_cfg {stale : Stale} {kind : Kind} {sched : Sched}
    {k r sb B C : Nat} {d0 d' : Decoder} {ops : List DecOp}
    (h0 : Decoder.new stale kind sched k r sb none = .ok d0)
    (hB : decNewNeed kind k r sb = some (B, C))
    (hc : DecOp.BoundedCfg B C kind ops) (h : DecOp.run stale d0 ops = some d') :
    d'.allocs = 1 ∧ d'.bitAllocs = 1 ∧ d'.held = B ∧ d'.bitLen = C := by
  obtain ⟨_, _, f3, _⟩ := Decoder.new_fresh h0
  have hp : (d0.held, d0.bitLen) = (B, C) := (Option.some.inj (hB.symm.trans f3)).symm
  have hh : d0.held = B := congrArg Prod.fst hp
  have hl : d0.bitLen = C := congrArg Prod.snd hp
  have hb : DecOp.Bounded stale d0.held d0.bitLen d0 ops := by
    rw [hh, hl]
    exact DecOp.bounded_of_cfg ops d0 (Decoder.new_wf h0) (by rw [Decoder.new_kind h0]; exact hc)
  obtain ⟨r1, r2, r3, r4, _⟩ := DecOp.history_one_alloc h0 hb h
  exact ⟨r1, r2, r3.trans hh, r4.trans hl⟩

/-! ### the statements are not vacuous -/

/-- a default-rate encoder for (3, 2, 64 bytes) holds 4 blocks after its one allocation; a reset
    to 128-byte shards needs 8 and allocates; going back to 64-byte shards does not -/
example (stale : Stale) (e0 : Encoder)
    (h0 : Encoder.new stale .default .twoLayer 3 2 64 none = .ok e0) :
    e0.allocs = 1 ∧ e0.held = 4
      ∧ (e0.reset stale 3 2 128).2.allocs = 2 ∧ (e0.reset stale 3 2 128).2.held = 8
      ∧ ((e0.reset stale 3 2 128).2.reset stale 3 2 64).2.allocs = 2
      ∧ ((e0.reset stale 3 2 128).2.reset stale 3 2 64).2.held = 8 := by
  obtain ⟨f1, f2, _⟩ := Encoder.new_fresh h0
  have f3 : encNewNeed .default 3 2 64 = some 4 := by decide
  have f4 : encNewNeed .default 3 2 128 = some 8 := by decide
  have hheld : e0.held = 4 := (Option.some.inj (f3.symm.trans f2)).symm
  have hk := Encoder.new_kind h0
  obtain ⟨cur, w, hi, hh, hl⟩ := Encoder.new_wf h0
  obtain ⟨_, s1, s2⟩ := Encoder.reset_step stale e0 3 2 128
  rw [Encoder.resetNeed_eq_newNeed hi hh hl, hk, f4, f1, hheld] at s1
  rw [Encoder.resetNeed_eq_newNeed hi hh hl, hk, f4, hheld] at s2
  have s1' : (e0.reset stale 3 2 128).2.allocs = 2 := s1
  have s2' : (e0.reset stale 3 2 128).2.held = 8 := s2
  obtain ⟨cur', w', hi', hh', hl'⟩ := Encoder.reset_wf (stale := stale) (k := 3) (r := 2) (sb := 128)
    hi hh hl
  obtain ⟨_, t1, t2⟩ := Encoder.reset_step stale (e0.reset stale 3 2 128).2 3 2 64
  rw [Encoder.resetNeed_eq_newNeed hi' hh' hl', Encoder.reset_kind, hk, f3, s1', s2'] at t1
  rw [Encoder.resetNeed_eq_newNeed hi' hh' hl', Encoder.reset_kind, hk, f3, s2'] at t2
  exact ⟨f1, hheld, s1', s2', t1, t2⟩

/-- a history with rounds, shrinking resets, a renew to another flavour and a reset back to the
    first configuration: one allocation in total -/
example (stale : Stale) (e0 e' : Encoder) (s : Array Nat)
    (h0 : Encoder.new stale .default .twoLayer 3 2 128 none = .ok e0)
    (h : EncOp.run stale e0
      [.add s, .reset 3 2 64, .encode, .renew .high .twoLayer 2 2 64, .reset 3 2 128, .reset 0 0 1]
        = some e') :
    e'.allocs = 1 ∧ e'.held = 8 := by
  refine EncOp.history_one_alloc_cfg h0 (B := 8) (by decide) ?_ h
  refine ⟨?_, ?_, ?_, ?_, trivial⟩
  · intro n hn
    have : encNewNeed .default 3 2 64 = some 4 := by decide
    rw [this] at hn; cases hn; decide
  · intro n hn
    have : encNewNeed .high 2 2 64 = some 2 := by decide
    rw [this] at hn; cases hn; decide
  · intro n hn
    have : encNewNeed .high 3 2 128 = some 8 := by decide
    rw [this] at hn; cases hn; decide
  · intro n hn
    have : encNewNeed .high 0 0 1 = none := by decide
    rw [this] at hn; cases hn

#print axioms selectNewX86_legal
#print axioms selectEvalX86_legal
#print axioms selectNewX86_eq_eval
#print axioms selectNewX86_best
#print axioms executedX86_eq
#print axioms executedX86_legal
#print axioms executedX86_best
#print axioms selectNewX86_portable_iff
#print axioms selectNewArm_legal
#print axioms selectEvalArm_legal
#print axioms selectNewArm_best
#print axioms executedArm_eq
#print axioms executedArm_legal
#print axioms selectNewArm_portable_iff
#print axioms Encoder.add_alloc
#print axioms Encoder.encode_alloc
#print axioms Decoder.addOriginal_alloc
#print axioms Decoder.addRecovery_alloc
#print axioms Decoder.decode_alloc
#print axioms Encoder.reset_alloc_cases
#print axioms Encoder.reset_allocs
#print axioms Encoder.reset_allocs_wf
#print axioms Encoder.reset_allocs_of_fail
#print axioms Encoder.reset_step
#print axioms Encoder.reset_no_alloc_of_le
#print axioms Encoder.new_allocs
#print axioms Encoder.new_no_alloc_of_le
#print axioms Encoder.new_fresh
#print axioms Decoder.reset_allocs
#print axioms Decoder.reset_allocs_of_fail
#print axioms Decoder.reset_step
#print axioms Decoder.reset_no_alloc_of_le
#print axioms Decoder.new_allocs
#print axioms Decoder.new_no_alloc_of_le
#print axioms Decoder.new_fresh
#print axioms EncOp.step_alloc
#print axioms EncOp.run_allocs
#print axioms EncOp.run_no_alloc
#print axioms EncOp.history_one_alloc
#print axioms EncOp.bounded_of_cfg
#print axioms EncOp.history_one_alloc_cfg
#print axioms DecOp.step_alloc
#print axioms DecOp.run_allocs
#print axioms DecOp.run_no_alloc
#print axioms DecOp.history_one_alloc
#print axioms DecOp.bounded_of_cfg
#print axioms DecOp.history_one_alloc_cfg

end RS
