/-
  Contents of the executable tables of `Model/Tables.lean`, characterised by structural
  induction over `expBuild` / `logBuild` (the kernel never evaluates a 65536-entry table).
-/
import RSVerif.Proofs.GF16
import RSVerif.Model.Tables

namespace RS

/-! ### small facts on `gexp` -/

theorem gexp_zero : gexp 0 = gone := by
  have h := gexp_eq 0 (by decide)
  rw [pow_zero] at h
  exact congrArg GF16.val h

theorem gexp_one : gexp 1 = gen := by
  have h := gexp_eq 1 (by decide)
  rw [pow_one] at h
  exact congrArg GF16.val h

theorem gexp_succ (k : Nat) (h : k + 1 < 2 ^ 64) : gexp (k + 1) = gmul gen (gexp k) := by
  have := gexp_add 1 k (by omega)
  rw [gexp_one, Nat.add_comm 1 k] at this
  exact this

/-! ### getD helpers (generic arrays) -/

theorem getD_push_lt {α} (a : Array α) (e d : α) (k : Nat) (h : k < a.size) :
    (a.push e).getD k d = a.getD k d := by
  simp [Array.getD, h, Nat.lt_succ_of_lt h, Array.getElem_push_lt]

theorem getD_push_eq {α} (a : Array α) (e d : α) :
    (a.push e).getD a.size d = e := by
  simp [Array.getD]

theorem getD_setIfInBounds {α} (a : Array α) (i k : Nat) (v d : α) :
    (a.setIfInBounds i v).getD k d = if i = k ∧ k < a.size then v else a.getD k d := by
  by_cases hk : k < a.size
  · by_cases hi : i = k
    · subst hi; simp [Array.getD, hk]
    · simp [Array.getD, hk, hi]
  · simp [Array.getD, hk]

/-! ### 1. the exp table -/

theorem expBuild_size : ∀ (n : Nat) (e : Sym) (a : Array Sym), (expBuild n e a).size = a.size + n
  | 0, _, _ => rfl
  | n + 1, e, a => by
    rw [expBuild, expBuild_size n, Array.size_push]; omega

theorem expBuild_getD_lt : ∀ (n : Nat) (e : Sym) (a : Array Sym) (k : Nat), k < a.size →
    (expBuild n e a).getD k 0#16 = a.getD k 0#16
  | 0, _, _, _, _ => rfl
  | n + 1, e, a, k, h => by
    rw [expBuild, expBuild_getD_lt n _ _ k (by rw [Array.size_push]; omega), getD_push_lt _ _ _ _ h]

theorem expBuild_getD : ∀ (n j : Nat) (a : Array Sym), a.size = j → j + n < 2 ^ 64 →
    ∀ i, i < n → (expBuild n (gexp j) a).getD (j + i) 0#16 = gexp (j + i)
  | 0, _, _, _, _, i, hi => absurd hi (Nat.not_lt_zero i)
  | n + 1, j, a, hs, hb, i, hi => by
    rw [expBuild, ← gexp_succ j (by omega)]
    cases i with
    | zero =>
      rw [Nat.add_zero j, expBuild_getD_lt n _ _ j (by rw [Array.size_push]; omega)]
      subst hs
      exact getD_push_eq _ _ _
    | succ i =>
      have := expBuild_getD n (j + 1) (a.push (gexp j)) (by rw [Array.size_push, hs])
        (by omega) i (by omega)
      rw [show j + (i + 1) = j + 1 + i by omega]
      exact this

theorem expArr_size : expArr.size = 65536 := by
  unfold expArr
  rw [expBuild_size]
  rfl

theorem expArr_get (k : Nat) (hk : k < 65536) : expArr.getD k 0#16 = gexp k := by
  have := expBuild_getD 65536 0 (Array.mkEmpty 65536) rfl (by decide) k hk
  rw [gexp_zero, Nat.zero_add] at this
  exact this

/-! ### 6. `gexpFast` -/

theorem gexpFast_eq {m : Nat} (h : m ≤ 65535) : gexpFast m = gexp m :=
  expArr_get m (by omega)

/-! ### 2. the log table -/

/-- invariant of `logBuild` once the exponents `k < K` have been scattered -/
def LogInv (K : Nat) (a : Array Nat) : Prop :=
  a.size = 65536 ∧ ∀ x : Sym,
    (∀ k, k < K → gexp k = x → a.getD x.toNat 0 = k) ∧
    ((∀ k, k < K → gexp k ≠ x) → a.getD x.toNat 0 = 65535)

theorem LogInv.step {K : Nat} {a : Array Nat} (hK : K < 65535) (h : LogInv K a) :
    LogInv (K + 1) (a.setIfInBounds (expArr.getD K 0#16).toNat K) := by
  rw [expArr_get K (by omega)]
  obtain ⟨hs, hx⟩ := h
  refine ⟨by rw [Array.size_setIfInBounds, hs], fun x => ?_⟩
  have hlt : x.toNat < a.size := by rw [hs]; exact x.isLt
  rw [getD_setIfInBounds]
  by_cases hx' : gexp K = x
  · have hc : (gexp K).toNat = x.toNat ∧ x.toNat < a.size := ⟨by rw [hx'], hlt⟩
    rw [if_pos hc]
    refine ⟨fun k hk hk' => ?_, fun hn => absurd hx' (hn K (by omega))⟩
    exact (gexp_injOn (by omega) hK (hk'.trans hx'.symm)).symm
  · have hc : ¬((gexp K).toNat = x.toNat ∧ x.toNat < a.size) :=
      fun hc => hx' (BitVec.eq_of_toNat_eq hc.1)
    rw [if_neg hc]
    refine ⟨fun k hk hk' => ?_, fun hn => (hx x).2 (fun k hk => hn k (by omega))⟩
    have : k < K := by
      rcases Nat.lt_succ_iff_lt_or_eq.1 hk with h | h
      · exact h
      · subst h; exact absurd hk' hx'
    exact (hx x).1 k this hk'

/-- unfolding equation of `logBuild`, stated between functions: in the applied form
    `logBuild (n+1) k a = logBuild n (k+1) _` the defeq check would first compare the array
    arguments and thereby evaluate `expArr.size` (infeasible). -/
theorem logBuild_succ_fun (n : Nat) : logBuild (n + 1) =
    fun k a => logBuild n (k + 1) (a.setIfInBounds (expArr.getD k 0#16).toNat k) := rfl

theorem logBuild_succ (n k : Nat) (a : Array Nat) : logBuild (n + 1) k a =
    logBuild n (k + 1) (a.setIfInBounds (expArr.getD k 0#16).toNat k) :=
  congrFun (congrFun (logBuild_succ_fun n) k) a

theorem logBuild_zero (k : Nat) (a : Array Nat) : logBuild 0 k a = a := rfl

theorem logBuild_inv (n : Nat) : ∀ (K : Nat) (a : Array Nat), K + n ≤ 65535 → LogInv K a →
    LogInv (K + n) (logBuild n K a) := by
  induction n with
  | zero => intro K a _ h; rw [logBuild_zero]; exact h
  | succ n ih =>
    intro K a hb h
    have h1 : LogInv (K + 1) _ := h.step (Nat.lt_of_lt_of_le (by omega) hb)
    have h2 := ih (K + 1) _ (by omega) h1
    rw [show K + 1 + n = K + (n + 1) by omega] at h2
    rw [logBuild_succ]
    exact h2

theorem logInv_init : LogInv 0 (Array.replicate 65536 65535) := by
  refine ⟨Array.size_replicate, fun x => ⟨fun k hk => absurd hk (Nat.not_lt_zero k), fun _ => ?_⟩⟩
  have : x.toNat < 65536 := x.isLt
  simp [Array.getD, this]

theorem logArr_inv : LogInv 65535 logArr := by
  have := logBuild_inv 65535 0 _ (by decide) logInv_init
  rw [Nat.zero_add] at this
  exact this

theorem logArr_size : logArr.size = 65536 := logArr_inv.1

theorem logArr_zero : logArr.getD 0 0 = 65535 :=
  (logArr_inv.2 0#16).2 (fun k hk => gexp_ne_zero k (by omega))

theorem logArr_gexp (k : Nat) (hk : k < 65535) : logArr.getD (gexp k).toNat 0 = k :=
  (logArr_inv.2 (gexp k)).1 k hk rfl

theorem logArr_spec (x : Sym) (hx : x ≠ 0) : logArr.getD x.toNat 0 = glog x := by
  obtain ⟨h1, h2⟩ := glog_spec x hx
  have := logArr_gexp (glog x) h1
  rw [h2] at this
  exact this

/-- every entry of the log table is at most 65535 (and exactly 65535 only at index 0) -/
theorem logArr_le (i : Nat) : logArr.getD i 0 ≤ 65535 := by
  by_cases hi : i < 65536
  · have ht : (BitVec.ofNat 16 i).toNat = i := by
      rw [BitVec.toNat_ofNat]; exact Nat.mod_eq_of_lt hi
    by_cases h0 : BitVec.ofNat 16 i = 0#16
    · have : i = 0 := by rw [← ht, h0]; rfl
      subst this
      exact Nat.le_of_eq logArr_zero
    · have := logArr_spec _ h0
      rw [ht] at this
      rw [this]
      exact Nat.le_of_lt (glog_spec _ h0).1
  · have : ¬ i < logArr.size := by rw [logArr_size]; exact hi
    simp [Array.getD, this]

/-! ### 3. `lgArr` : log with entry 0 replaced by 0 -/

theorem lgArr_size : lgArr.size = 65536 := by
  unfold lgArr
  rw [Array.size_setIfInBounds, logArr_size]

theorem lgArr_zero : lgArr.getD 0 0 = 0 := by
  unfold lgArr
  rw [getD_setIfInBounds, if_pos ⟨rfl, by rw [logArr_size]; decide⟩]

theorem toNat_ne_zero {x : Sym} (hx : x ≠ 0) : x.toNat ≠ 0 :=
  fun h => hx (BitVec.eq_of_toNat_eq h)

theorem lgArr_spec (x : Sym) (hx : x ≠ 0) : lgArr.getD x.toNat 0 = glog x := by
  unfold lgArr
  rw [getD_setIfInBounds, if_neg (fun h => toNat_ne_zero hx h.1.symm), logArr_spec x hx]

theorem lgArr_ne_zero (i : Nat) (hi : i ≠ 0) : lgArr.getD i 0 = logArr.getD i 0 := by
  unfold lgArr
  rw [getD_setIfInBounds, if_neg (fun h => hi h.1.symm)]

/-- all entries of `lgArr` are `< 65535` (out-of-range reads give the default 0) -/
theorem lgArr_lt (i : Nat) : lgArr.getD i 0 < 65535 := by
  by_cases hi : i < 65536
  · have ht : (BitVec.ofNat 16 i).toNat = i := by
      rw [BitVec.toNat_ofNat]; exact Nat.mod_eq_of_lt hi
    by_cases h0 : BitVec.ofNat 16 i = 0#16
    · have : i = 0 := by rw [← ht, h0]; rfl
      subst this
      rw [lgArr_zero]; decide
    · have := lgArr_spec _ h0
      rw [ht] at this
      rw [this]
      exact (glog_spec _ h0).1
  · have : ¬ i < lgArr.size := by rw [lgArr_size]; exact hi
    simp [Array.getD, this]

theorem lgArr_lt' (i : Nat) : lgArr.getD i 0 < 65536 := Nat.lt_succ_of_lt (lgArr_lt i)

/-- the property of `lg` used by the decoder -/
theorem gexp_lg (x : Sym) (hx : x ≠ 0) : gexp (lgArr.getD x.toNat 0) = x := by
  rw [lgArr_spec x hx]
  exact (glog_spec x hx).2

/-! ### 4. `LOG_WALSH` -/

theorem logWalshArr_def : logWalshArr = fwht lgArr 65536 := rfl

/-! ### 5. the skew table -/

theorem skewLog_spec (i : Nat) (h : skewElem i ≠ 0) :
    gexp (skewLog i) = skewElem i ∧ skewLog i < 65535 := by
  unfold skewLog
  rw [logArr_spec _ h]
  exact ⟨(glog_spec _ h).2, (glog_spec _ h).1⟩

theorem skewLog_eq_glog (i : Nat) (h : skewElem i ≠ 0) : skewLog i = glog (skewElem i) := by
  unfold skewLog
  exact logArr_spec _ h

theorem skewLog_zero (i : Nat) (h : skewElem i = 0) : skewLog i = 65535 := by
  unfold skewLog
  rw [h]
  exact logArr_zero

theorem skewLog_le (i : Nat) : skewLog i ≤ 65535 := by
  unfold skewLog
  exact logArr_le _

theorem skewLog_eq_65535_iff (i : Nat) : skewLog i = 65535 ↔ skewElem i = 0 := by
  refine ⟨fun h => ?_, skewLog_zero i⟩
  apply Classical.byContradiction
  intro hne
  have := (skewLog_spec i hne).2
  omega

/-! ### 7. logarithm arithmetic -/

theorem gexp_foldl : ∀ (l : List Nat) (s : Nat), s + l.sum < 2 ^ 64 →
    l.foldl (fun acc m => gmul acc (gexp m)) (gexp s) = gexp (s + l.sum)
  | [], s, _ => by simp
  | m :: l, s, h => by
    rw [List.sum_cons] at h
    rw [List.foldl_cons, ← gexp_add s m (by omega), gexp_foldl l (s + m) (by omega),
      List.sum_cons, Nat.add_assoc]

/-- exponents add modulo 65535 -/
theorem gexp_sum (l : List Nat) (h : l.sum < 2 ^ 64) :
    gexp (l.sum % 65535) = l.foldl (fun acc m => gmul acc (gexp m)) gone := by
  rw [gexp_mod _ h, ← gexp_zero, gexp_foldl l 0 (by omega), Nat.zero_add]

/-- multiplying by `g^(65535 - m)` divides by `g^m` -/
theorem gexp_neg {m : Nat} (h : m < 65536) : gmul (gexp m) (gexp (65535 - m)) = gone := by
  rw [← gexp_add m (65535 - m) (by omega), show m + (65535 - m) = 65535 by omega, gexp_65535]

theorem gexp_mod_eq {a b : Nat} (h : a % 65535 = b % 65535) (ha : a < 2 ^ 64) (hb : b < 2 ^ 64) :
    gexp a = gexp b := by
  rw [← gexp_mod a ha, ← gexp_mod b hb, h]

end RS

#print axioms RS.expArr_size
#print axioms RS.expArr_get
#print axioms RS.gexpFast_eq
#print axioms RS.logArr_size
#print axioms RS.logArr_zero
#print axioms RS.logArr_gexp
#print axioms RS.logArr_spec
#print axioms RS.logArr_le
#print axioms RS.lgArr_size
#print axioms RS.lgArr_zero
#print axioms RS.lgArr_spec
#print axioms RS.lgArr_lt
#print axioms RS.gexp_lg
#print axioms RS.logWalshArr_def
#print axioms RS.skewLog_spec
#print axioms RS.skewLog_zero
#print axioms RS.skewLog_le
#print axioms RS.skewLog_eq_65535_iff
#print axioms RS.gexp_sum
#print axioms RS.gexp_neg
#print axioms RS.gexp_mod_eq
