/-
  General lemmas for Proofs/SrcCodecSpec.lean: the loop combinators of the translated codec bodies
  (`whileNat`, `forRange` of Model/RustCodec.lean) as explicit operation lists, the interpreter
  (`runOps`, Model/CodecInterp.lean) over such lists as folds of state transformers, and the
  pointwise description of the `erasures` marking loops.
-/
import RSVerif.Model.CodecInterp
import RSVerif.Proofs.FlatEngineSpec

namespace RS
namespace SrcCodec

open RS.RustC RS.SrcC

/-! ### accumulated operations of a loop -/

/-- operations accumulated by `n` iterations of a loop whose `j`-th iteration is `step j` -/
def accOps (step : Nat → Array Op → Option (Array Op)) : Nat → Array Op → Array Op
  | 0, ops => ops
  | n + 1, ops => (step n (accOps step n ops)).getD ops

theorem whileNat_unroll (cond : Nat → Option Bool) (body : Nat → Array Op → Option (Nat × Array Op))
    (x0 c : Nat) (ops : Array Op) (fuel : Nat) :
    ∀ n, n ≤ fuel → (∀ j, j < n → cond (x0 + j * c) = some true) →
      (∀ j, j < n → ∀ o, ∃ o', body (x0 + j * c) o = some (x0 + j * c + c, o')) →
      whileNat fuel cond body x0 ops
        = whileNat (fuel - n) cond body (x0 + n * c)
            (accOps (fun j o => (body (x0 + j * c) o).map Prod.snd) n ops) := by
  intro n
  induction n with
  | zero => intro _ _ _; simp [accOps]
  | succ n ih =>
    intro hn hc hb
    rw [ih (by omega) (fun j hj => hc j (by omega)) (fun j hj => hb j (by omega))]
    obtain ⟨f', hf'⟩ : ∃ f', fuel - n = f' + 1 := ⟨fuel - n - 1, by omega⟩
    rw [hf', show fuel - (n + 1) = f' by omega]
    obtain ⟨o', ho'⟩ := hb n (by omega)
      (accOps (fun j o => (body (x0 + j * c) o).map Prod.snd) n ops)
    rw [whileNat, hc n (by omega)]
    simp only [ho', accOps, Option.map_some, Option.getD_some]
    rw [show x0 + n * c + c = x0 + (n + 1) * c by rw [Nat.succ_mul]; omega]

/-- a counting `while` loop: `n` iterations with counter `x0, x0 + c, …`, then the condition fails -/
theorem whileNat_eq {cond : Nat → Option Bool} {body : Nat → Array Op → Option (Nat × Array Op)}
    {x0 : Nat} {ops : Array Op} {fuel : Nat} (c n : Nat) (hn : n < fuel)
    (hc : ∀ j, j < n → cond (x0 + j * c) = some true) (hlast : cond (x0 + n * c) = some false)
    (hb : ∀ j, j < n → ∀ o, ∃ o', body (x0 + j * c) o = some (x0 + j * c + c, o')) :
    whileNat fuel cond body x0 ops
      = some (x0 + n * c, accOps (fun j o => (body (x0 + j * c) o).map Prod.snd) n ops) := by
  rw [whileNat_unroll cond body x0 c ops fuel n (by omega) hc hb]
  obtain ⟨f', hf'⟩ : ∃ f', fuel - n = f' + 1 := ⟨fuel - n - 1, by omega⟩
  rw [hf', whileNat, hlast]

/-- a `for` loop all of whose iterations succeed -/
theorem forRange_eq {f : Nat → Array Op → Option (Array Op)} {a b : Nat} {ops : Array Op}
    (hf : ∀ j, j < b - a → ∀ o, ∃ o', f (a + j) o = some o') :
    forRange a b f ops = some (accOps (fun j o => f (a + j) o) (b - a) ops) := by
  unfold forRange
  generalize b - a = n at hf
  induction n with
  | zero => simp [accOps]
  | succ n ih =>
    rw [List.range'_1_concat, List.foldlM_append, ih (fun j hj => hf j (by omega))]
    obtain ⟨o', ho'⟩ := hf n (by omega) (accOps (fun j o => f (a + j) o) n ops)
    simp [accOps, ho']

/-! ### running operation lists -/

variable {V : Type} [ShardAlg V]

/-- run a program from a given state -/
def run (s : Sched) (lw : Array Nat) (st : CState V) (ops : Array Op) : CState V :=
  ops.foldl (stepOp s lw) st

theorem runOps_eq_run (s : Sched) (lw : Array Nat) (ops : Array Op) (mem : Array V) :
    runOps s lw ops mem = run s lw { mem := mem, era := Array.replicate 65536 0 } ops := rfl

theorem run_empty (s : Sched) (lw : Array Nat) (st : CState V) : run s lw st #[] = st := rfl

theorem run_push (s : Sched) (lw : Array Nat) (st : CState V) (ops : Array Op) (o : Op) :
    run s lw st (ops.push o) = stepOp s lw (run s lw st ops) o := by
  unfold run; rw [Array.foldl_push]

/-- the accumulated operations of a loop run as the fold of the iterations' effects -/
theorem run_accOps (s : Sched) (lw : Array Nat) (F : Nat → CState V → CState V)
    (step : Nat → Array Op → Option (Array Op)) (st : CState V) (ops : Array Op) :
    ∀ n, (∀ j, j < n → ∀ o, ∃ o', step j o = some o' ∧
        ∀ st : CState V, run s lw st o' = F j (run s lw st o)) →
      run s lw st (accOps step n ops) = (List.range n).foldl (fun st j => F j st) (run s lw st ops) := by
  intro n
  induction n with
  | zero => intro _; rfl
  | succ n ih =>
    intro h
    obtain ⟨o', ho', hrun⟩ := h n (by omega) (accOps step n ops)
    rw [List.range_succ, List.foldl_append, ← ih (fun j hj => h j (by omega))]
    simp only [accOps, ho', Option.getD_some, List.foldl_cons, List.foldl_nil]
    exact hrun st

/-! ### single operations -/

section steps
variable (s : Sched) (lw : Array Nat) (st : CState V)

theorem step_zero (a b : Nat) :
    stepOp s lw st (.zero a b) = { mem := zeroRange st.mem a b, era := st.era } := rfl
theorem step_zeroFrom (a : Nat) :
    stepOp s lw st (.zeroFrom a) = { mem := zeroRange st.mem a st.mem.size, era := st.era } := rfl
theorem step_fft (p n t d : Nat) :
    stepOp s lw st (.fft p n t d) = { mem := fft s st.mem p n t d, era := st.era } := rfl
theorem step_ifft (p n t d : Nat) :
    stepOp s lw st (.ifft p n t d) = { mem := ifft s st.mem p n t d, era := st.era } := rfl
theorem step_fftSkewEnd (p n t : Nat) (h : p + n < 18446744073709551616) :
    stepOp s lw st (.fftSkewEnd p n t) = { mem := fft s st.mem p n t (p + n), era := st.era } := by
  simp only [stepOp, fft_skew_end_delta, if_pos h]
theorem step_ifftSkewEnd (p n t : Nat) (h : p + n < 18446744073709551616) :
    stepOp s lw st (.ifftSkewEnd p n t) = { mem := ifft s st.mem p n t (p + n), era := st.era } := by
  simp only [stepOp, ifft_skew_end_delta, if_pos h]
theorem step_xorWithin (x y n : Nat) :
    stepOp s lw st (.xorWithin x y n) = { mem := xorWithin st.mem x y n, era := st.era } := rfl
theorem step_copyWithin (x y n : Nat) :
    stepOp s lw st (.copyWithin x y n) = { mem := copyWithin st.mem x y n, era := st.era } := rfl
theorem step_formalDerivative :
    stepOp s lw st .formalDerivative = { mem := formalDerivative st.mem, era := st.era } := rfl
theorem step_mark (i : Nat) :
    stepOp s lw st (.mark i) = { mem := st.mem, era := st.era.setIfInBounds i 1 } := rfl
theorem step_markRange (a b : Nat) :
    stepOp s lw st (.markRange a b) = { mem := st.mem, era := markRangeArr st.era a b } := rfl
theorem step_markFrom (a : Nat) :
    stepOp s lw st (.markFrom a) = { mem := st.mem, era := markRangeArr st.era a st.era.size } := rfl
theorem step_evalPoly (n : Nat) :
    stepOp s lw st (.evalPoly n) = { mem := st.mem, era := evalPolyWith lw st.era n } := rfl
theorem step_mulE (i : Nat) :
    stepOp s lw st (.mulE i)
      = { mem := st.mem.setIfInBounds i (mulLog (rd st.mem i) (st.era.getD i 0)), era := st.era } := rfl
theorem step_mulNegE (i : Nat) :
    stepOp s lw st (.mulNegE i)
      = { mem := st.mem.setIfInBounds i (mulLog (rd st.mem i) (65535 - st.era.getD i 0)),
          era := st.era } := rfl
theorem step_fill0 (i : Nat) :
    stepOp s lw st (.fill0 i) = { mem := st.mem.setIfInBounds i ShardAlg.zero, era := st.era } := rfl
theorem step_undoLast : stepOp s lw st .undoLast = st := rfl

end steps

/-! ### folds that touch one component of the state -/

omit [ShardAlg V] in
theorem fold_mem (G : Array Nat → Nat → Array V → Array V) (l : List Nat) (st : CState V) :
    l.foldl (fun st j => ({ mem := G st.era j st.mem, era := st.era } : CState V)) st
      = { mem := l.foldl (fun a j => G st.era j a) st.mem, era := st.era } := by
  induction l generalizing st with
  | nil => rfl
  | cons x xs ih => rw [List.foldl_cons, ih]; rfl

omit [ShardAlg V] in
theorem fold_era (E : Nat → Array Nat → Array Nat) (l : List Nat) (st : CState V) :
    l.foldl (fun st j => ({ mem := st.mem, era := E j st.era } : CState V)) st
      = { mem := st.mem, era := l.foldl (fun e j => E j e) st.era } := by
  induction l generalizing st with
  | nil => rfl
  | cons x xs ih => rw [List.foldl_cons, ih]; rfl

/-! ### the `erasures` marking loops, pointwise -/

/-- `for i in a..a+n { if !received[i] { erasures[i] = 1 } }` -/
def markLoop (recv : Nat → Bool) (a n : Nat) (era : Array Nat) : Array Nat :=
  (List.range n).foldl (fun e j => if recv (a + j) = true then e else e.setIfInBounds (a + j) 1) era

theorem markLoop_size (recv : Nat → Bool) (a n : Nat) (era : Array Nat) :
    (markLoop recv a n era).size = era.size := by
  unfold markLoop
  induction n with
  | zero => rfl
  | succ n ih =>
    rw [List.range_succ, List.foldl_append]
    simp only [List.foldl_cons, List.foldl_nil]
    split
    · exact ih
    · rw [Array.size_setIfInBounds]; exact ih

theorem getD_setIfInBounds (e : Array Nat) (i p v : Nat) :
    (e.setIfInBounds i v).getD p 0 = if i = p ∧ p < e.size then v else e.getD p 0 := by
  by_cases hp : p < e.size
  · rw [arr_getD_lt _ _ (by rw [Array.size_setIfInBounds]; exact hp), Array.getElem_setIfInBounds hp]
    by_cases hi : i = p
    · rw [if_pos hi, if_pos ⟨hi, hp⟩]
    · rw [if_neg hi, if_neg (fun c => hi c.1), arr_getD_lt _ _ hp]
  · rw [arr_getD_ge _ _ (by rw [Array.size_setIfInBounds]; exact hp), if_neg (fun c => hp c.2),
      arr_getD_ge _ _ hp]

theorem markLoop_getD (recv : Nat → Bool) (a n : Nat) (era : Array Nat) (p : Nat) (hp : p < era.size) :
    (markLoop recv a n era).getD p 0
      = if a ≤ p ∧ p < a + n ∧ recv p = false then 1 else era.getD p 0 := by
  induction n with
  | zero => rw [if_neg (by omega)]; rfl
  | succ n ih =>
    have hstep : markLoop recv a (n + 1) era
        = if recv (a + n) = true then markLoop recv a n era
          else (markLoop recv a n era).setIfInBounds (a + n) 1 := by
      unfold markLoop
      rw [List.range_succ, List.foldl_append]; rfl
    rw [hstep]
    by_cases hr : recv (a + n) = true
    · rw [if_pos hr, ih]
      by_cases hpn : p = a + n
      · subst hpn
        rw [if_neg (by omega), if_neg (by simp [hr])]
      · by_cases hw : a ≤ p ∧ p < a + n ∧ recv p = false
        · rw [if_pos hw, if_pos ⟨hw.1, by omega, hw.2.2⟩]
        · rw [if_neg hw, if_neg (fun h => hw ⟨h.1, by omega, h.2.2⟩)]
    · rw [if_neg hr, getD_setIfInBounds, markLoop_size, ih]
      by_cases hpn : a + n = p
      · subst hpn
        rw [if_pos ⟨rfl, hp⟩, if_pos ⟨by omega, by omega, by simpa using hr⟩]
      · rw [if_neg (fun h => hpn h.1)]
        by_cases hw : a ≤ p ∧ p < a + n ∧ recv p = false
        · rw [if_pos hw, if_pos ⟨hw.1, by omega, hw.2.2⟩]
        · rw [if_neg hw, if_neg (fun h => hw ⟨h.1, by omega, h.2.2⟩)]

theorem markRangeArr_size (era : Array Nat) (a b : Nat) : (markRangeArr era a b).size = era.size := by
  unfold markRangeArr; exact Array.size_ofFn

theorem markRangeArr_getD (era : Array Nat) (a b p : Nat) (hp : p < era.size) :
    (markRangeArr era a b).getD p 0 = if a ≤ p ∧ p < b then 1 else era.getD p 0 := by
  rw [arr_getD_lt _ _ (by rw [markRangeArr_size]; exact hp)]
  simp only [markRangeArr, Array.getElem_ofFn]
  rw [arr_getD_lt _ _ hp]
  rfl

theorem natArr_ext (a b : Array Nat) (hs : a.size = b.size)
    (h : ∀ p, p < a.size → a.getD p 0 = b.getD p 0) : a = b := by
  apply Array.ext hs
  intro i h1 h2
  have := h i h1
  rwa [arr_getD_lt _ _ h1, arr_getD_lt _ _ h2] at this

/-! ### the per-shard loops of the decoders -/

/-- the sequential loop is the pointwise map (`mapRange_fold` without the size hypothesis) -/
theorem mapRange_fold' (g : Nat → V → V) (lo : Nat) (A : Array V) :
    ∀ c, (List.range c).foldl (fun a j => a.setIfInBounds (lo + j) (g (lo + j) (rd a (lo + j)))) A
        = mapRange g lo c A := by
  intro c
  induction c with
  | zero =>
    apply ext_rd_lt
    · rw [mapRange_size]; rfl
    · intro p hp
      rw [mapRange_size] at hp
      rw [rd_mapRange _ _ _ _ _ hp, if_neg (by omega)]
      rfl
  | succ c ih =>
    rw [List.range_succ, List.foldl_append, ih]
    simp only [List.foldl_cons, List.foldl_nil]
    apply ext_rd_lt
    · rw [Array.size_setIfInBounds, mapRange_size, mapRange_size]
    · intro p hp
      rw [mapRange_size] at hp
      rw [fl_rd_setIfInBounds, mapRange_size, rd_mapRange _ _ _ _ _ hp, rd_mapRange _ _ _ _ _ hp]
      by_cases hpc : lo + c = p
      · subst hpc
        rw [if_pos ⟨rfl, hp⟩, if_pos (by omega), rd_mapRange _ _ _ _ _ hp,
          if_neg (by omega : ¬ (lo ≤ lo + c ∧ lo + c < lo + c))]
      · rw [if_neg (fun h => hpc h.1)]
        by_cases hw : lo ≤ p ∧ p < lo + c
        · rw [if_pos hw, if_pos (by omega)]
        · rw [if_neg hw, if_neg (by omega)]

/-- effect of `if !received[a+j] { erasures[a+j] = 1 }` -/
def markF (recv : Nat → Bool) (a j : Nat) (st : CState V) : CState V :=
  { mem := st.mem, era := if recv (a + j) = true then st.era else st.era.setIfInBounds (a + j) 1 }

/-- effect of `if received[a+j] { mul(work[a+j], erasures[a+j]) } else { work[a+j].fill(0) }` -/
def prepF (recv : Nat → Bool) (a j : Nat) (st : CState V) : CState V :=
  { mem := st.mem.setIfInBounds (a + j) (prepG recv st.era (a + j) (rd st.mem (a + j))), era := st.era }

/-- effect of `if !received[a+j] { mul(work[a+j], GF_MODULUS - erasures[a+j]) }` -/
def revF (recv : Nat → Bool) (a j : Nat) (st : CState V) : CState V :=
  { mem := st.mem.setIfInBounds (a + j) (revG recv st.era (a + j) (rd st.mem (a + j))), era := st.era }

omit [ShardAlg V] in
theorem fold_markF (recv : Nat → Bool) (a n : Nat) (st : CState V) :
    (List.range n).foldl (fun st j => markF recv a j st) st
      = { mem := st.mem, era := markLoop recv a n st.era } := by
  unfold markF markLoop
  rw [fold_era (fun j e => if recv (a + j) = true then e else e.setIfInBounds (a + j) 1)]

theorem fold_prepF (recv : Nat → Bool) (a n : Nat) (st : CState V) :
    (List.range n).foldl (fun st j => prepF recv a j st) st
      = { mem := mapRange (prepG recv st.era) a n st.mem, era := st.era } := by
  unfold prepF
  rw [fold_mem (fun e j m => m.setIfInBounds (a + j) (prepG recv e (a + j) (rd m (a + j)))),
    mapRange_fold']

theorem fold_revF (recv : Nat → Bool) (a n : Nat) (st : CState V) :
    (List.range n).foldl (fun st j => revF recv a j st) st
      = { mem := mapRange (revG recv st.era) a n st.mem, era := st.era } := by
  unfold revF
  rw [fold_mem (fun e j m => m.setIfInBounds (a + j) (revG recv e (a + j) (rd m (a + j)))),
    mapRange_fold']

theorem side_mark (s : Sched) (lw : Array Nat) (recv : Nat → Bool) (a j : Nat) (o : Array Op) :
    ∃ o', (if recv (a + j) = true then some o else some (o.push (Op.mark (a + j)))) = some o' ∧
      ∀ st : CState V, run s lw st o' = markF recv a j (run s lw st o) := by
  by_cases h : recv (a + j) = true
  · rw [if_pos h]; exact ⟨_, rfl, fun st => by simp only [markF, if_pos h]⟩
  · rw [if_neg h]
    refine ⟨_, rfl, fun st => ?_⟩
    rw [run_push, step_mark]; simp only [markF, if_neg h]

theorem side_prep (s : Sched) (lw : Array Nat) (recv : Nat → Bool) (a j : Nat) (o : Array Op) :
    ∃ o', (if recv (a + j) = true then some (o.push (Op.mulE (a + j)))
        else some (o.push (Op.fill0 (a + j)))) = some o' ∧
      ∀ st : CState V, run s lw st o' = prepF recv a j (run s lw st o) := by
  by_cases h : recv (a + j) = true
  · rw [if_pos h]
    refine ⟨_, rfl, fun st => ?_⟩
    rw [run_push, step_mulE]; simp only [prepF, prepG, if_pos h]
  · rw [if_neg h]
    refine ⟨_, rfl, fun st => ?_⟩
    rw [run_push, step_fill0]; simp only [prepF, prepG, if_neg h]

theorem side_rev (s : Sched) (lw : Array Nat) (recv : Nat → Bool) (a j : Nat) (o : Array Op) :
    ∃ o', (if recv (a + j) = true then some o else some (o.push (Op.mulNegE (a + j)))) = some o' ∧
      ∀ st : CState V, run s lw st o' = revF recv a j (run s lw st o) := by
  by_cases h : recv (a + j) = true
  · rw [if_pos h]
    refine ⟨_, rfl, fun st => ?_⟩
    have h' : ¬ recv (a + j) = false := by simp [h]
    simp only [revF, revG, if_neg h', setIfInBounds_rd_self]
  · rw [if_neg h]
    refine ⟨_, rfl, fun st => ?_⟩
    have h' : recv (a + j) = false := by simpa using h
    rw [run_push, step_mulNegE]; simp only [revF, revG, if_pos h']

/-! ### the erasure indicators -/

theorem era_high (k r : Nat) (recv : Nat → Bool) (hrc : r ≤ npow2 r) :
    markLoop recv (npow2 r) (npow2 r + k - npow2 r)
        (markRangeArr (markLoop recv 0 r (Array.replicate 65536 0)) r (npow2 r))
      = erasuresHigh k r recv := by
  apply natArr_ext
  · simp [markLoop_size, markRangeArr_size, erasuresHigh]
  · intro p hp
    rw [markLoop_size, markRangeArr_size, markLoop_size, Array.size_replicate] at hp
    rw [markLoop_getD _ _ _ _ _ (by rw [markRangeArr_size, markLoop_size, Array.size_replicate]; exact hp),
      markRangeArr_getD _ _ _ _ (by rw [markLoop_size, Array.size_replicate]; exact hp),
      markLoop_getD _ _ _ _ _ (by rw [Array.size_replicate]; exact hp),
      arr_getD_lt _ _ (by rw [Array.size_replicate]; exact hp),
      arr_getD_lt _ _ (by simp [erasuresHigh]; exact hp)]
    simp only [erasuresHigh, Array.getElem_ofFn, Array.getElem_replicate]
    cases hr : recv p <;> simp <;> (repeat' split) <;> omega

theorem era_low (k r : Nat) (recv : Nat → Bool) (hkc : k ≤ npow2 k) :
    markRangeArr (markLoop recv (npow2 k) (npow2 k + r - npow2 k)
        (markLoop recv 0 k (Array.replicate 65536 0))) (npow2 k + r) 65536
      = erasuresLow k r recv := by
  apply natArr_ext
  · simp [markLoop_size, markRangeArr_size, erasuresLow]
  · intro p hp
    rw [markRangeArr_size, markLoop_size, markLoop_size, Array.size_replicate] at hp
    rw [markRangeArr_getD _ _ _ _ (by rw [markLoop_size, markLoop_size, Array.size_replicate]; exact hp),
      markLoop_getD _ _ _ _ _ (by rw [markLoop_size, Array.size_replicate]; exact hp),
      markLoop_getD _ _ _ _ _ (by rw [Array.size_replicate]; exact hp),
      arr_getD_lt _ _ (by rw [Array.size_replicate]; exact hp),
      arr_getD_lt _ _ (by simp [erasuresLow]; exact hp)]
    simp only [erasuresLow, Array.getElem_ofFn, Array.getElem_replicate]
    cases hr : recv p <;> simp <;> (repeat' split) <;> omega

/-! ### sizes -/

omit [ShardAlg V] in
theorem foldl_size' {β : Type} (f : Array V → β → Array V) (hf : ∀ a b, (f a b).size = a.size)
    (l : List β) (a : Array V) : (l.foldl f a).size = a.size := by
  induction l generalizing a with
  | nil => rfl
  | cons x xs ih => rw [List.foldl_cons, ih, hf]

theorem xorWithin_size' (a : Array V) (x y n : Nat) : (xorWithin a x y n).size = a.size := by
  unfold xorWithin
  exact foldl_size' _ (fun a i => Array.size_setIfInBounds ..) _ _

theorem formalDerivative_size' (a : Array V) : (formalDerivative a).size = a.size := by
  unfold formalDerivative
  exact foldl_size' _ (fun a i => xorWithin_size' ..) _ _

theorem decodePrepare_size' (isData recv : Nat → Bool) (loc : Array Nat) (a : Array V) :
    (decodePrepare isData recv loc a).size = a.size := by
  unfold decodePrepare; exact Array.size_ofFn

end SrcCodec
end RS
