/-
  Byte layout of a shard: `layout` / `unlayout` are mutually inverse for every even shard
  size, and the placement of the low/high bytes of every lane is the documented one.
-/
import RSVerif.Model.State

namespace RS

/-! ### arithmetic of the placement -/

theorem byteLane_eq (sb i : Nat) :
    byteLane sb i =
      if i % 64 < (if i / 64 < sb / 64 then 32 else (sb % 64) / 2)
      then (32 * (i / 64) + i % 64, false)
      else (32 * (i / 64) + (i % 64 - (if i / 64 < sb / 64 then 32 else (sb % 64) / 2)), true) := rfl

theorem loIdx_lt {sb l : Nat} (h : l < sb / 2) : loIdx l < sb := by
  unfold loIdx; omega

theorem hiIdx_lt {sb l : Nat} (h : l < sb / 2) : hiIdx sb l < sb := by
  unfold hiIdx; split <;> omega

theorem loIdx_ne_hiIdx {sb l : Nat} (h : l < sb / 2) : loIdx l ≠ hiIdx sb l := by
  unfold loIdx hiIdx; split <;> omega

/-- full block: documented placement -/
theorem loIdx_eq (l : Nat) : loIdx l = 64 * (l / 32) + l % 32 := rfl

theorem hiIdx_full {sb l : Nat} (h : l / 32 < sb / 64) : hiIdx sb l = loIdx l + 32 := by
  unfold loIdx hiIdx; rw [if_pos h]; omega

theorem hiIdx_partial {sb l : Nat} (h : ¬ l / 32 < sb / 64) :
    hiIdx sb l = loIdx l + (sb % 64) / 2 := by
  unfold loIdx hiIdx; rw [if_neg h]; omega

theorem byteLane_loIdx {sb l : Nat} (h : l < sb / 2) : byteLane sb (loIdx l) = (l, false) := by
  rw [byteLane_eq]; unfold loIdx
  have h1 : (64 * (l / 32) + l % 32) / 64 = l / 32 := by omega
  have h2 : (64 * (l / 32) + l % 32) % 64 = l % 32 := by omega
  rw [h1, h2]
  split
  · rw [if_pos (by omega)]; congr 1; omega
  · rw [if_pos (by omega)]; congr 1; omega

theorem byteLane_hiIdx {sb l : Nat} (h : l < sb / 2) : byteLane sb (hiIdx sb l) = (l, true) := by
  rw [byteLane_eq]; unfold hiIdx
  split
  · rename_i hq
    have h1 : (64 * (l / 32) + 32 + l % 32) / 64 = l / 32 := by omega
    have h2 : (64 * (l / 32) + 32 + l % 32) % 64 = 32 + l % 32 := by omega
    rw [h1, h2, if_pos hq, if_neg (by omega)]; congr 1; omega
  · rename_i hq
    have h1 : (64 * (l / 32) + sb % 64 / 2 + l % 32) / 64 = l / 32 := by omega
    have h2 : (64 * (l / 32) + sb % 64 / 2 + l % 32) % 64 = sb % 64 / 2 + l % 32 := by omega
    rw [h1, h2, if_neg hq, if_neg (by omega)]; congr 1; omega

/-- converse: every byte of an even-size shard belongs to a lane `< sb/2`, and is its low or
    high byte -/
theorem byteLane_spec {sb i : Nat} (hsb : sb % 2 = 0) (h : i < sb) :
    (byteLane sb i).1 < sb / 2 ∧
      i = if (byteLane sb i).2 then hiIdx sb (byteLane sb i).1 else loIdx (byteLane sb i).1 := by
  rw [byteLane_eq]
  by_cases hq : i / 64 < sb / 64
  · simp only [if_pos hq]
    by_cases ho : i % 64 < 32
    · simp only [if_pos ho]
      refine ⟨by omega, ?_⟩
      simp only [Bool.false_eq_true, if_false]
      unfold loIdx; omega
    · simp only [if_neg ho]
      refine ⟨by omega, ?_⟩
      simp only [if_true]
      unfold hiIdx
      have : (32 * (i / 64) + (i % 64 - 32)) / 32 = i / 64 := by omega
      rw [this, if_pos hq]; omega
  · simp only [if_neg hq]
    by_cases ho : i % 64 < sb % 64 / 2
    · simp only [if_pos ho]
      refine ⟨by omega, ?_⟩
      simp only [Bool.false_eq_true, if_false]
      unfold loIdx; omega
    · simp only [if_neg ho]
      refine ⟨by omega, ?_⟩
      simp only [if_true]
      unfold hiIdx
      have : (32 * (i / 64) + (i % 64 - sb % 64 / 2)) / 32 = i / 64 := by omega
      rw [this, if_neg hq]; omega

theorem byteLane_lt {sb i : Nat} (hsb : sb % 2 = 0) (h : i < sb) : (byteLane sb i).1 < sb / 2 :=
  (byteLane_spec hsb h).1

theorem loIdx_injective {l l' : Nat} (h : loIdx l = loIdx l') : l = l' := by
  unfold loIdx at h; omega

theorem hiIdx_injective {sb l l' : Nat} (hl : l < sb / 2) (hl' : l' < sb / 2)
    (h : hiIdx sb l = hiIdx sb l') : l = l' := by
  have := byteLane_hiIdx hl
  rw [h, byteLane_hiIdx hl'] at this
  exact (Prod.mk.inj this).1.symm

theorem loIdx_ne_hiIdx' {sb l l' : Nat} (hl : l < sb / 2) (hl' : l' < sb / 2) :
    loIdx l ≠ hiIdx sb l' := by
  intro h
  have := byteLane_loIdx hl
  rw [h, byteLane_hiIdx hl'] at this
  exact Bool.noConfusion (Prod.mk.inj this).2

/-- every byte of the shard belongs to exactly one (lane, half) -/
theorem byte_unique {sb i : Nat} (hsb : sb % 2 = 0) (h : i < sb) :
    ∃ (l : Nat) (hi : Bool), l < sb / 2 ∧ i = (if hi then hiIdx sb l else loIdx l) ∧
      ∀ (l' : Nat) (hi' : Bool), l' < sb / 2 → i = (if hi' then hiIdx sb l' else loIdx l') → l' = l ∧ hi' = hi := by
  refine ⟨(byteLane sb i).1, (byteLane sb i).2, (byteLane_spec hsb h).1, (byteLane_spec hsb h).2, ?_⟩
  intro l' hi' hl' he
  cases hi' with
  | true =>
    simp only [if_true] at he
    rw [he, byteLane_hiIdx hl']; exact ⟨rfl, rfl⟩
  | false =>
    simp only [Bool.false_eq_true, if_false] at he
    rw [he, byteLane_loIdx hl']; exact ⟨rfl, rfl⟩

/-! ### `unlayout` -/

theorem unlayout_size {L : Nat} (sb : Nat) (v : Vector Sym L) : (unlayout sb v).size = sb := by
  unfold unlayout; exact Array.size_ofFn

theorem unlayout_getElem {L : Nat} (sb : Nat) (v : Vector Sym L) (i : Nat)
    (h : i < (unlayout sb v).size) :
    (unlayout sb v)[i] =
      if (byteLane sb i).2 then (v.toArray.getD (byteLane sb i).1 0#16).toNat / 256
      else (v.toArray.getD (byteLane sb i).1 0#16).toNat % 256 := by
  simp only [unlayout, Array.getElem_ofFn]

theorem arr_getElem! {b : Array Nat} {i : Nat} (h : i < b.size) : b[i]! = b[i] :=
  getElem!_pos b i h

theorem vec_getD {L : Nat} (v : Vector Sym L) (l : Nat) (h : l < L) :
    v.toArray.getD l 0#16 = v[l] := by
  have : l < v.toArray.size := by rw [Vector.size_toArray]; exact h
  rw [Array.getD_eq_getD_getElem?, Array.getElem?_eq_getElem this]
  rfl

/-- slot independence: the low byte of slot `l` -/
theorem unlayout_loIdx {sb : Nat} (v : Vector Sym (sb / 2)) {l : Nat} (h : l < sb / 2) :
    (unlayout sb v)[loIdx l]! = (v[l]).toNat % 256 := by
  have hs : loIdx l < (unlayout sb v).size := by rw [unlayout_size]; exact loIdx_lt h
  rw [arr_getElem! hs, unlayout_getElem, byteLane_loIdx h]
  simp only [Bool.false_eq_true, if_false]
  rw [vec_getD v l h]

/-- slot independence: the high byte of slot `l` -/
theorem unlayout_hiIdx {sb : Nat} (v : Vector Sym (sb / 2)) {l : Nat} (h : l < sb / 2) :
    (unlayout sb v)[hiIdx sb l]! = (v[l]).toNat / 256 := by
  have hs : hiIdx sb l < (unlayout sb v).size := by rw [unlayout_size]; exact hiIdx_lt h
  rw [arr_getElem! hs, unlayout_getElem, byteLane_hiIdx h]
  simp only [if_true]
  rw [vec_getD v l h]

theorem unlayout_byte_lt {L : Nat} (sb : Nat) (v : Vector Sym L) (i : Nat)
    (h : i < (unlayout sb v).size) : (unlayout sb v)[i] < 256 := by
  rw [unlayout_getElem]
  have := (v.toArray.getD (byteLane sb i).1 0#16).isLt
  split <;> omega

/-! ### `layout` -/

theorem layout_getElem (sb : Nat) (b : Array Nat) (l : Nat) (h : l < sb / 2) :
    (layout sb b)[l] =
      BitVec.ofNat 16 (b.getD (loIdx l) 0 % 256 + 256 * (b.getD (hiIdx sb l) 0 % 256)) := by
  unfold layout
  rw [Vector.getElem_ofFn]

theorem layout_getElem_toNat (sb : Nat) (b : Array Nat) (l : Nat) (h : l < sb / 2) :
    ((layout sb b)[l]).toNat = b.getD (loIdx l) 0 % 256 + 256 * (b.getD (hiIdx sb l) 0 % 256) := by
  rw [layout_getElem, BitVec.toNat_ofNat]
  apply Nat.mod_eq_of_lt
  omega

theorem arr_getD {b : Array Nat} {i : Nat} (h : i < b.size) : b.getD i 0 = b[i] := by
  rw [Array.getD_eq_getD_getElem?, Array.getElem?_eq_getElem h]
  rfl

/-! ### round trips -/

/-- bytes → symbols → bytes is the identity, for every even size -/
theorem unlayout_layout {sb : Nat} {b : Array Nat} (hsb : sb % 2 = 0) (hb : b.size = sb)
    (hbyte : ∀ i, i < sb → b.getD i 0 < 256) : unlayout sb (layout sb b) = b := by
  apply Array.ext
  · rw [unlayout_size, hb]
  · intro i h1 h2
    have hi : i < sb := by rw [← hb]; exact h2
    obtain ⟨hl, he⟩ := byteLane_spec hsb hi
    rw [unlayout_getElem, vec_getD _ _ hl, layout_getElem_toNat _ _ _ hl]
    have hlo := hbyte _ (loIdx_lt hl)
    have hhi := hbyte _ (hiIdx_lt hl)
    rw [← arr_getD h2]
    cases hh : (byteLane sb i).2 with
    | true =>
      rw [hh] at he; simp only [if_true] at he ⊢
      rw [← he] at hhi ⊢; omega
    | false =>
      rw [hh] at he; simp only [Bool.false_eq_true, if_false] at he ⊢
      rw [← he] at hlo ⊢; omega

/-- variant with `b[i]!` -/
theorem unlayout_layout' {sb : Nat} {b : Array Nat} (hsb : sb % 2 = 0) (hb : b.size = sb)
    (hbyte : ∀ i, i < sb → b[i]! < 256) : unlayout sb (layout sb b) = b := by
  apply unlayout_layout hsb hb
  intro i hi
  have h2 : i < b.size := by rw [hb]; exact hi
  have := hbyte i hi
  rw [arr_getElem! h2] at this
  rw [arr_getD h2]; exact this

/-- symbols → bytes → symbols is the identity: the byte format carries exactly `sb/2`
    independent 16-bit slots -/
theorem layout_unlayout {sb : Nat} (v : Vector Sym (sb / 2)) : layout sb (unlayout sb v) = v := by
  apply Vector.ext
  intro l hl
  rw [layout_getElem _ _ _ hl]
  have hlo : loIdx l < (unlayout sb v).size := by rw [unlayout_size]; exact loIdx_lt hl
  have hhi : hiIdx sb l < (unlayout sb v).size := by rw [unlayout_size]; exact hiIdx_lt hl
  have e1 := unlayout_loIdx v hl
  have e2 := unlayout_hiIdx v hl
  rw [arr_getElem! hlo] at e1
  rw [arr_getElem! hhi] at e2
  rw [arr_getD hlo, arr_getD hhi, e1, e2]
  apply BitVec.eq_of_toNat_eq
  rw [BitVec.toNat_ofNat]
  have := (v[l]).isLt
  omega

#print axioms loIdx_lt
#print axioms hiIdx_lt
#print axioms loIdx_ne_hiIdx
#print axioms hiIdx_full
#print axioms hiIdx_partial
#print axioms byteLane_loIdx
#print axioms byteLane_hiIdx
#print axioms byteLane_spec
#print axioms loIdx_injective
#print axioms hiIdx_injective
#print axioms loIdx_ne_hiIdx'
#print axioms byte_unique
#print axioms unlayout_size
#print axioms unlayout_loIdx
#print axioms unlayout_hiIdx
#print axioms unlayout_byte_lt
#print axioms unlayout_layout
#print axioms unlayout_layout'
#print axioms layout_unlayout

end RS
