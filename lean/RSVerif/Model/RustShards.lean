/- Support definitions for the translation of src/engine/shards.rs (translate/rs2lean_shards.py): slices of
   64-byte blocks as VIEWS (offset, length) into the backing vector, with Rust's panics as `none`. -/
namespace RS.RustS

/-- a slice `&mut [[u8; 64]]`: blocks `off .. off + len` of the backing `Vec<[u8; 64]>` -/
structure View where
  off : Nat
  len : Nat
deriving Repr, DecidableEq

/-- `&v[a..]`: panics iff `a > v.len()` -/
def View.from (v : View) (a : Nat) : Option View :=
  if a ≤ v.len then some ⟨v.off + a, v.len - a⟩ else none

/-- `&v[..b]`: panics iff `b > v.len()` -/
def View.upTo (v : View) (b : Nat) : Option View :=
  if b ≤ v.len then some ⟨v.off, b⟩ else none

/-- `&v[a..b]`: panics iff `a > b` or `b > v.len()` -/
def View.range (v : View) (a b : Nat) : Option View :=
  if a ≤ b ∧ b ≤ v.len then some ⟨v.off + a, b - a⟩ else none

/-- `v.split_at_mut(m)`: panics iff `m > v.len()` -/
def View.splitAt (v : View) (m : Nat) : Option (View × View) :=
  if m ≤ v.len then some (⟨v.off, m⟩, ⟨v.off + m, v.len - m⟩) else none

/-- `v.copy_within(a..b, d)`: panics iff `a > b`, `b > v.len()` or `d + (b - a) > v.len()`; the result is the
    source view and the destination offset (both absolute) -/
def View.copyWithin (v : View) (a b d : Nat) : Option (View × Nat) :=
  if a ≤ b ∧ b ≤ v.len ∧ d + (b - a) ≤ v.len then some (⟨v.off + a, b - a⟩, v.off + d) else none

/-- the header of `Shards` / `ShardsRefMut` -/
structure ShardsS where
  shard_count : Nat
  shard_len_64 : Nat
  data : View
deriving Repr, DecidableEq

/-- `std::ops::Bound<&usize>` -/
inductive Bound where
  | included (n : Nat)
  | excluded (n : Nat)
  | unbounded
deriving Repr, DecidableEq

/-- `match bound { Bound::Included(x) => fi x, Bound::Excluded(x) => fe x, Bound::Unbounded => fu }` -/
def Bound.cases {ρ : Type} (b : Bound) (fi fe : Nat → ρ) (fu : ρ) : ρ :=
  match b with
  | .included n => fi n
  | .excluded n => fe n
  | .unbounded => fu

/-- an `impl RangeBounds<usize>` -/
structure RangeB where
  lo : Bound
  hi : Bound
deriving Repr, DecidableEq

end RS.RustS
