/-
  The per-block (64 bytes = 32 symbols) multiply and butterfly kernels of the four engine families,
  each a line-by-line transliteration of the Rust with the documented semantics of the intrinsics:

  * NoSimd (engine_nosimd.rs) : `mul`, `mul_add`, `fft_butterfly_partial`, `ifft_butterfly_partial`
                                on one chunk: a loop `for i in 0..32` mutating the chunk in place,
  * Ssse3  (engine_ssse3.rs)  : `mul_ssse3` body, `muladd_128`, `fftb_128`, `ifftb_128`
                                (four 16-byte loads, `mul128` of Model/Simd.lean, four stores),
  * Avx2   (engine_avx2.rs)   : `LutAvx2::from` (`_mm256_broadcastsi128_si256`), `mul_256`,
                                `muladd_256`, `mul_avx2` body, `fftb_256`, `ifftb_256`
                                (two 32-byte loads / stores, 256-bit intrinsics acting per 128-bit lane),
  * Neon   (engine_neon.rs)   : `mul_128` with `vqtbl1q_u8` / `vshrq_n_u8` / `vandq_u8` / `veorq_u8`,
                                `muladd_128`, `mul_neon` body, `fftb_128`, `ifftb_128`.

  A block holds the LOW bytes of its 32 symbols in bytes 0..32 and the HIGH bytes in bytes 32..64.
  `mulf` is the symbol-level map the tables were filled from (`x ↦ x ⊗ g^log_m`), as in
  Model/Kernels.lean (`lut16`) and Model/Simd.lean (`lutLo`, `lutHi`, `mul128`).

  The block-level specification (`blockSym`, `specMulBlock`, `blockXor`) is at the end.
  Executable, import-free (core Lean only).
-/
import RSVerif.Model.Blocks

namespace RS

/-! ### block accessors -/

/-- `_mm_loadu_si128(x_ptr.add(q))` / `vld1q_u8(x_ptr.add(16 * q))`: bytes `16q .. 16q + 16` -/
def blockQuarter (b : Block) (q : Nat) : V128 :=
  Vector.ofFn fun i => b.toArray.getD (16 * q + i.val) 0#8

/-- the block after `_mm_storeu_si128(x_ptr.add(k), qk)` for `k = 0, 1, 2, 3` -/
def blockOfQuarters (q0 q1 q2 q3 : V128) : Block :=
  Vector.ofFn fun j =>
    if j.val < 16 then q0.toArray.getD j.val 0#8
    else if j.val < 32 then q1.toArray.getD (j.val - 16) 0#8
    else if j.val < 48 then q2.toArray.getD (j.val - 32) 0#8
    else q3.toArray.getD (j.val - 48) 0#8

/-! ### Ssse3 -/

/-- `Ssse3::mul_ssse3`, body of the loop over chunks -/
def ssse3MulBlock (mulf : Sym → Sym) (b : Block) : Block :=
  let x0Lo := blockQuarter b 0
  let x1Lo := blockQuarter b 1
  let x0Hi := blockQuarter b 2
  let x1Hi := blockQuarter b 3
  let prod0 := mul128 mulf x0Lo x0Hi
  let prod1 := mul128 mulf x1Lo x1Hi
  blockOfQuarters prod0.1 prod1.1 prod0.2 prod1.2

/-- `Ssse3::muladd_128(x_lo, x_hi, y_lo, y_hi, lut)`: `{x_lo, x_hi} ^= {y_lo, y_hi} * log_m` -/
def muladd128 (mulf : Sym → Sym) (xLo xHi yLo yHi : V128) : V128 × V128 :=
  let prod := mul128 mulf yLo yHi
  let xLo := v128xor xLo prod.1
  let xHi := v128xor xHi prod.2
  (xLo, xHi)

/-- `x ^= y * log_m` on one block, as `muladd_128` does it on both 16-symbol halves
    (the first half of `fftb_128`, the second half of `ifftb_128`) -/
def ssse3MulAdd (mulf : Sym → Sym) (x y : Block) : Block :=
  let x0 := muladd128 mulf (blockQuarter x 0) (blockQuarter x 2) (blockQuarter y 0) (blockQuarter y 2)
  let x1 := muladd128 mulf (blockQuarter x 1) (blockQuarter x 3) (blockQuarter y 1) (blockQuarter y 3)
  blockOfQuarters x0.1 x1.1 x0.2 x1.2

/-- `Ssse3::fftb_128(x, y, log_m)`: returns the new `(x, y)` -/
def ssse3Fftb (mulf : Sym → Sym) (x y : Block) : Block × Block :=
  let x0Lo := blockQuarter x 0
  let x1Lo := blockQuarter x 1
  let x0Hi := blockQuarter x 2
  let x1Hi := blockQuarter x 3
  let y0Lo := blockQuarter y 0
  let y1Lo := blockQuarter y 1
  let y0Hi := blockQuarter y 2
  let y1Hi := blockQuarter y 3
  let x0 := muladd128 mulf x0Lo x0Hi y0Lo y0Hi
  let x1 := muladd128 mulf x1Lo x1Hi y1Lo y1Hi
  let xOut := blockOfQuarters x0.1 x1.1 x0.2 x1.2
  let y0Lo := v128xor y0Lo x0.1
  let y1Lo := v128xor y1Lo x1.1
  let y0Hi := v128xor y0Hi x0.2
  let y1Hi := v128xor y1Hi x1.2
  (xOut, blockOfQuarters y0Lo y1Lo y0Hi y1Hi)

/-- `Ssse3::ifftb_128(x, y, log_m)`: returns the new `(x, y)` -/
def ssse3Ifftb (mulf : Sym → Sym) (x y : Block) : Block × Block :=
  let x0Lo := blockQuarter x 0
  let x1Lo := blockQuarter x 1
  let x0Hi := blockQuarter x 2
  let x1Hi := blockQuarter x 3
  let y0Lo := blockQuarter y 0
  let y1Lo := blockQuarter y 1
  let y0Hi := blockQuarter y 2
  let y1Hi := blockQuarter y 3
  let y0Lo := v128xor y0Lo x0Lo
  let y1Lo := v128xor y1Lo x1Lo
  let y0Hi := v128xor y0Hi x0Hi
  let y1Hi := v128xor y1Hi x1Hi
  let yOut := blockOfQuarters y0Lo y1Lo y0Hi y1Hi
  let x0 := muladd128 mulf x0Lo x0Hi y0Lo y0Hi
  let x1 := muladd128 mulf x1Lo x1Hi y1Lo y1Hi
  (blockOfQuarters x0.1 x1.1 x0.2 x1.2, yOut)

/-! ### Avx2 -/

abbrev V256 := Vector Byte 32

/-- `_mm256_and_si256` -/
def v256and (a b : V256) : V256 := Vector.zipWith (· &&& ·) a b
/-- `_mm256_xor_si256` -/
def v256xor (a b : V256) : V256 := Vector.zipWith (· ^^^ ·) a b
/-- `_mm256_set1_epi8` -/
def v256set1 (x : Byte) : V256 := Vector.replicate 32 x

/-- the 64-bit little-endian lane `h` (0..3) of a 256-bit vector, as a number -/
def lane64w (a : V256) (h : Nat) : Nat :=
  (List.range 8).foldl (fun acc i => acc + (a.toArray.getD (8 * h + i) 0#8).toNat * 256 ^ i) 0

/-- `_mm256_srli_epi64(a, n)`: logical right shift of each of the four 64-bit lanes -/
def v256srli64 (a : V256) (n : Nat) : V256 :=
  Vector.ofFn fun i =>
    BitVec.ofNat 8 ((lane64w a (i.val / 8) / 2 ^ n) / 256 ^ (i.val % 8))

/-- `_mm256_shuffle_epi8(t, idx)` (vpshufb): each 128-bit lane is shuffled on its own, with the
    table bytes of the same lane: byte `i` is 0 if bit 7 of `idx[i]` is set, else
    `t[16 * (i / 16) + (idx[i] & 15)]` -/
def v256shuffle (t idx : V256) : V256 :=
  Vector.ofFn fun i =>
    let j := idx[i]
    if j.msb then 0#8 else t.toArray.getD (16 * (i.val / 16) + j.toNat % 16) 0#8

/-- `_mm256_broadcastsi128_si256(t)`: the 128-bit value in both lanes -/
def v256broadcast (t : V128) : V256 :=
  Vector.ofFn fun i => t.toArray.getD (i.val % 16) 0#8

/-- `_mm256_loadu_si256(x_ptr.add(h))`: bytes `32h .. 32h + 32` -/
def blockHalf (b : Block) (h : Nat) : V256 :=
  Vector.ofFn fun i => b.toArray.getD (32 * h + i.val) 0#8

/-- the block after `_mm256_storeu_si256(x_ptr, lo)`, `_mm256_storeu_si256(x_ptr.add(1), hi)` -/
def blockOfHalves (lo hi : V256) : Block :=
  Vector.ofFn fun j =>
    if j.val < 32 then lo.toArray.getD j.val 0#8 else hi.toArray.getD (j.val - 32) 0#8

/-- `LutAvx2::from(lut)`: `t{k}_lo`, `t{k}_hi` -/
def lutLo256 (mulf : Sym → Sym) (k : Nat) : V256 := v256broadcast (lutLo mulf k)
def lutHi256 (mulf : Sym → Sym) (k : Nat) : V256 := v256broadcast (lutHi mulf k)

/-- `Avx2::mul_256(value_lo, value_hi, lut_avx2)` line by line -/
def mul256 (mulf : Sym → Sym) (valueLo valueHi : V256) : V256 × V256 :=
  let clr := v256set1 0x0f#8
  let data0 := v256and valueLo clr
  let prodLo := v256shuffle (lutLo256 mulf 0) data0
  let prodHi := v256shuffle (lutHi256 mulf 0) data0
  let data1 := v256and (v256srli64 valueLo 4) clr
  let prodLo := v256xor prodLo (v256shuffle (lutLo256 mulf 1) data1)
  let prodHi := v256xor prodHi (v256shuffle (lutHi256 mulf 1) data1)
  let data0 := v256and valueHi clr
  let prodLo := v256xor prodLo (v256shuffle (lutLo256 mulf 2) data0)
  let prodHi := v256xor prodHi (v256shuffle (lutHi256 mulf 2) data0)
  let data1 := v256and (v256srli64 valueHi 4) clr
  let prodLo := v256xor prodLo (v256shuffle (lutLo256 mulf 3) data1)
  let prodHi := v256xor prodHi (v256shuffle (lutHi256 mulf 3) data1)
  (prodLo, prodHi)

/-- `Avx2::muladd_256(x_lo, x_hi, y_lo, y_hi, lut_avx2)` -/
def muladd256 (mulf : Sym → Sym) (xLo xHi yLo yHi : V256) : V256 × V256 :=
  let prod := mul256 mulf yLo yHi
  let xLo := v256xor xLo prod.1
  let xHi := v256xor xHi prod.2
  (xLo, xHi)

/-- `Avx2::mul_avx2`, body of the loop over chunks -/
def avx2MulBlock (mulf : Sym → Sym) (b : Block) : Block :=
  let xLo := blockHalf b 0
  let xHi := blockHalf b 1
  let prod := mul256 mulf xLo xHi
  blockOfHalves prod.1 prod.2

/-- `x ^= y * log_m` on one block as `muladd_256` does it -/
def avx2MulAdd (mulf : Sym → Sym) (x y : Block) : Block :=
  let r := muladd256 mulf (blockHalf x 0) (blockHalf x 1) (blockHalf y 0) (blockHalf y 1)
  blockOfHalves r.1 r.2

/-- `Avx2::fftb_256(x, y, lut_avx2)`: returns the new `(x, y)` -/
def avx2Fftb (mulf : Sym → Sym) (x y : Block) : Block × Block :=
  let xLo := blockHalf x 0
  let xHi := blockHalf x 1
  let yLo := blockHalf y 0
  let yHi := blockHalf y 1
  let xs := muladd256 mulf xLo xHi yLo yHi
  let xOut := blockOfHalves xs.1 xs.2
  let yLo := v256xor yLo xs.1
  let yHi := v256xor yHi xs.2
  (xOut, blockOfHalves yLo yHi)

/-- `Avx2::ifftb_256(x, y, lut_avx2)`: returns the new `(x, y)` -/
def avx2Ifftb (mulf : Sym → Sym) (x y : Block) : Block × Block :=
  let xLo := blockHalf x 0
  let xHi := blockHalf x 1
  let yLo := blockHalf y 0
  let yHi := blockHalf y 1
  let yLo := v256xor yLo xLo
  let yHi := v256xor yHi xHi
  let yOut := blockOfHalves yLo yHi
  let xs := muladd256 mulf xLo xHi yLo yHi
  (blockOfHalves xs.1 xs.2, yOut)

/-! ### Neon -/

/-- `vqtbl1q_u8(t, idx)`: byte `i` is `t[idx[i]]` if `idx[i] < 16`, else 0 -/
def vqtbl1q (t idx : V128) : V128 :=
  Vector.ofFn fun i =>
    let j := idx[i]
    if j.toNat < 16 then t.toArray.getD j.toNat 0#8 else 0#8

/-- `vshrq_n_u8(a, 4)`: logical right shift of every byte by 4 -/
def vshrq4 (a : V128) : V128 := Vector.map (fun x : Byte => x >>> 4) a

/-- `Neon::mul_128(value_lo, value_hi, lut)` line by line (`vandq_u8` = `v128and`,
    `veorq_u8` = `v128xor`, `vdupq_n_u8` = `v128set1`) -/
def neonMul128 (mulf : Sym → Sym) (valueLo valueHi : V128) : V128 × V128 :=
  let clr := v128set1 0x0f#8
  let data0 := v128and valueLo clr
  let prodLo := vqtbl1q (lutLo mulf 0) data0
  let prodHi := vqtbl1q (lutHi mulf 0) data0
  let data1 := vshrq4 valueLo
  let prodLo := v128xor prodLo (vqtbl1q (lutLo mulf 1) data1)
  let prodHi := v128xor prodHi (vqtbl1q (lutHi mulf 1) data1)
  let data0 := v128and valueHi clr
  let prodLo := v128xor prodLo (vqtbl1q (lutLo mulf 2) data0)
  let prodHi := v128xor prodHi (vqtbl1q (lutHi mulf 2) data0)
  let data1 := vshrq4 valueHi
  let prodLo := v128xor prodLo (vqtbl1q (lutLo mulf 3) data1)
  let prodHi := v128xor prodHi (vqtbl1q (lutHi mulf 3) data1)
  (prodLo, prodHi)

/-- `Neon::muladd_128` -/
def neonMuladd128 (mulf : Sym → Sym) (xLo xHi yLo yHi : V128) : V128 × V128 :=
  let prod := neonMul128 mulf yLo yHi
  let xLo := v128xor xLo prod.1
  let xHi := v128xor xHi prod.2
  (xLo, xHi)

/-- `Neon::mul_neon`, body of the loop over chunks -/
def neonMulBlock (mulf : Sym → Sym) (b : Block) : Block :=
  let x0Lo := blockQuarter b 0
  let x1Lo := blockQuarter b 1
  let x0Hi := blockQuarter b 2
  let x1Hi := blockQuarter b 3
  let prod0 := neonMul128 mulf x0Lo x0Hi
  let prod1 := neonMul128 mulf x1Lo x1Hi
  blockOfQuarters prod0.1 prod1.1 prod0.2 prod1.2

/-- `x ^= y * log_m` on one block as Neon's `muladd_128` does it on both halves -/
def neonMulAdd (mulf : Sym → Sym) (x y : Block) : Block :=
  let x0 := neonMuladd128 mulf (blockQuarter x 0) (blockQuarter x 2) (blockQuarter y 0) (blockQuarter y 2)
  let x1 := neonMuladd128 mulf (blockQuarter x 1) (blockQuarter x 3) (blockQuarter y 1) (blockQuarter y 3)
  blockOfQuarters x0.1 x1.1 x0.2 x1.2

/-- `Neon::fftb_128(x, y, log_m)`: returns the new `(x, y)` -/
def neonFftb (mulf : Sym → Sym) (x y : Block) : Block × Block :=
  let x0Lo := blockQuarter x 0
  let x1Lo := blockQuarter x 1
  let x0Hi := blockQuarter x 2
  let x1Hi := blockQuarter x 3
  let y0Lo := blockQuarter y 0
  let y1Lo := blockQuarter y 1
  let y0Hi := blockQuarter y 2
  let y1Hi := blockQuarter y 3
  let x0 := neonMuladd128 mulf x0Lo x0Hi y0Lo y0Hi
  let x1 := neonMuladd128 mulf x1Lo x1Hi y1Lo y1Hi
  let xOut := blockOfQuarters x0.1 x1.1 x0.2 x1.2
  let y0Lo := v128xor y0Lo x0.1
  let y1Lo := v128xor y1Lo x1.1
  let y0Hi := v128xor y0Hi x0.2
  let y1Hi := v128xor y1Hi x1.2
  (xOut, blockOfQuarters y0Lo y1Lo y0Hi y1Hi)

/-- `Neon::ifftb_128(x, y, log_m)`: returns the new `(x, y)` -/
def neonIfftb (mulf : Sym → Sym) (x y : Block) : Block × Block :=
  let x0Lo := blockQuarter x 0
  let x1Lo := blockQuarter x 1
  let x0Hi := blockQuarter x 2
  let x1Hi := blockQuarter x 3
  let y0Lo := blockQuarter y 0
  let y1Lo := blockQuarter y 1
  let y0Hi := blockQuarter y 2
  let y1Hi := blockQuarter y 3
  let y0Lo := v128xor y0Lo x0Lo
  let y1Lo := v128xor y1Lo x1Lo
  let y0Hi := v128xor y0Hi x0Hi
  let y1Hi := v128xor y1Hi x1Hi
  let yOut := blockOfQuarters y0Lo y1Lo y0Hi y1Hi
  let x0 := neonMuladd128 mulf x0Lo x0Hi y0Lo y0Hi
  let x1 := neonMuladd128 mulf x1Lo x1Hi y1Lo y1Hi
  (blockOfQuarters x0.1 x1.1 x0.2 x1.2, yOut)

/-! ### NoSimd -/

/-- `lut[0][lo & 15] ^ lut[1][lo >> 4] ^ lut[2][hi & 15] ^ lut[3][hi >> 4]` on two `u8` -/
def nosimdProd (mulf : Sym → Sym) (lo hi : Byte) : Sym :=
  lut16 mulf 0 (lo &&& 15#8).toNat ^^^ lut16 mulf 1 (lo >>> 4).toNat ^^^
  lut16 mulf 2 (hi &&& 15#8).toNat ^^^ lut16 mulf 3 (hi >>> 4).toNat

/-- `NoSimd::mul`, body of the loop over chunks: `x_lo = chunk[..32]`, `x_hi = chunk[32..]`,
    `for i in 0..32 { … x_lo[i] = prod as u8; x_hi[i] = (prod >> 8) as u8; }` in place -/
def nosimdMulBlock (mulf : Sym → Sym) (b : Block) : Block :=
  (List.range 32).foldl (fun chunk i =>
    let lo := chunk.toArray.getD i 0#8
    let hi := chunk.toArray.getD (i + 32) 0#8
    let prod := nosimdProd mulf lo hi
    let chunk := chunk.setIfInBounds i (prod.setWidth 8)
    chunk.setIfInBounds (i + 32) ((prod >>> 8).setWidth 8)) b

/-- `NoSimd::mul_add`, body of the loop over chunk pairs: `x[] ^= y[] * log_m` in place on `x` -/
def nosimdMulAdd (mulf : Sym → Sym) (x y : Block) : Block :=
  (List.range 32).foldl (fun xc i =>
    let lo := y.toArray.getD i 0#8
    let hi := y.toArray.getD (i + 32) 0#8
    let prod := nosimdProd mulf lo hi
    let xc := xc.setIfInBounds i (xc.toArray.getD i 0#8 ^^^ prod.setWidth 8)
    xc.setIfInBounds (i + 32) (xc.toArray.getD (i + 32) 0#8 ^^^ (prod >>> 8).setWidth 8)) x

/-- `utils::xor(x, y)` on one chunk pair: `x ^= y` bytewise; also the block-level spec of xor -/
def blockXor (x y : Block) : Block := Vector.zipWith (· ^^^ ·) x y

/-- `NoSimd::fft_butterfly_partial` on one chunk pair: `mul_add(x, y, log_m); xor(y, x)` -/
def nosimdFftb (mulf : Sym → Sym) (x y : Block) : Block × Block :=
  let x := nosimdMulAdd mulf x y
  let y := blockXor y x
  (x, y)

/-- `NoSimd::ifft_butterfly_partial` on one chunk pair: `xor(y, x); mul_add(x, y, log_m)` -/
def nosimdIfftb (mulf : Sym → Sym) (x y : Block) : Block × Block :=
  let y := blockXor y x
  let x := nosimdMulAdd mulf x y
  (x, y)

/-! ### the block-level specification -/

/-- symbol `i` of a block: low byte `i`, high byte `i + 32` -/
def blockSym (b : Block) (i : Fin 32) : Sym :=
  BitVec.ofNat 16 ((b.toArray.getD i.val 0#8).toNat + 256 * (b.toArray.getD (i.val + 32) 0#8).toNat)

/-- `f` applied to each of the 32 symbols of a block, split back into low / high bytes: the
    per-block operation of `bMul f` (Model/Blocks.lean) -/
def specMulBlock (f : Sym → Sym) (b : Block) : Block :=
  Vector.ofFn fun j =>
    let i := j.val % 32
    let s : Sym := BitVec.ofNat 16 ((b.toArray.getD i 0#8).toNat + 256 * (b.toArray.getD (i + 32) 0#8).toNat)
    if j.val < 32 then BitVec.ofNat 8 ((f s).toNat % 256) else BitVec.ofNat 8 ((f s).toNat / 256)

end RS
