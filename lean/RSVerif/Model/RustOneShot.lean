/-
  Prelude of the generated file `Gen/SrcOneShot.lean` (see /verif/translate/rs2lean_oneshot.py): the streaming
  API the one-shot functions call, as an abstract record, and the early-exit fold of `for x in it { call(x)?; }`.
  `Res` / `WErr` are those generated from `enum Error` (Gen/SrcWork.lean).
-/
import RSVerif.Gen.SrcWork

namespace RS.RustO
open RS.SrcW

/-- `ReedSolomonEncoder` as the one-shot `encode` uses it -/
structure EncApi (E : Type) where
  supports : Nat → Nat → Bool
  new : Nat → Nat → Nat → Res E
  /-- `add_original_shard` (the encoder after the call) -/
  add : E → Array Nat → Res E
  /-- `encode()` followed by `recovery_iter().map(<[u8]>::to_vec).collect()` -/
  encode : E → Res (List (Array Nat))

/-- `ReedSolomonDecoder` as the one-shot `decode` uses it -/
structure DecApi (D : Type) where
  supports : Nat → Nat → Bool
  new : Nat → Nat → Nat → Res D
  addO : D → Nat → Array Nat → Res D
  addR : D → Nat → Array Nat → Res D
  /-- `decode()` followed by collecting `restored_original_iter()` as `(index, to_vec)` pairs -/
  decode : D → Res (List (Nat × Array Nat))

/-- `for x in it { c = step(c, x)?; }` -/
def foldRes {α β : Type} (step : α → β → Res α) : α → List β → Res α
  | a, [] => Res.Ok a
  | a, x :: xs => match step a x with
    | Res.Err e => Res.Err e
    | Res.Ok a' => foldRes step a' xs

end RS.RustO
