/-
  Specifications that are *not* derived from the algorithms:
  * the closed-form scaled-Cauchy generator matrix of C02 (own field arithmetic, no FFT, no tables),
  * the erasure-locator product of C15,
  * the set of truthful errors of every request (C06 / C10),
  * the staircase `cap` of the support envelope (C08).

  Import-free (linked into `rsmodel`).
-/
import RSVerif.Model.State

namespace RS

/-! ### closed-form generator matrix -/

/-- `a⁻¹ = a^65534` (and `0⁻¹ = 0`) -/
def ginv (a : Sym) : Sym := gpow a 65534

/-- `Π_{v < m} (x ⊕ v)`: the vanishing polynomial of the points `0 … m-1`, by direct product -/
def vanishProd (m : Nat) (x : Sym) : Sym :=
  (List.range m).foldl (fun acc v => gmul acc (x ^^^ BitVec.ofNat 16 v)) gone

/-- `W_m = Π_{0 < v < m} v` -/
def wProd (m : Nat) : Sym :=
  (List.range (m - 1)).foldl (fun acc v => gmul acc (BitVec.ofNat 16 (v + 1))) gone

/-- high rate: `G[j][i] = s_m(m+i) / (W_m · (j ⊕ (m+i)))`, `m = npow2 r` -/
def cauchyHigh (_k r j i : Nat) : Sym :=
  let m := npow2 r
  let p : Sym := BitVec.ofNat 16 (m + i)
  gmul (vanishProd m p) (ginv (gmul (wProd m) (BitVec.ofNat 16 j ^^^ p)))

/-- low rate: `G[j][i] = s_m(m+j) / (W_m · ((m+j) ⊕ i))`, `m = npow2 k` -/
def cauchyLow (k _r j i : Nat) : Sym :=
  let m := npow2 k
  let p : Sym := BitVec.ofNat 16 (m + j)
  gmul (vanishProd m p) (ginv (gmul (wProd m) (p ^^^ BitVec.ofNat 16 i)))

/-- recovery lanes by the closed form: `rec[j] = Σ_i G[j][i] · orig[i]` (lane-wise).
    Same matrix as `cauchyHigh` / `cauchyLow`, with the numerators `s_m(m+i)` resp. `s_m(m+j)`
    computed once per column resp. row. -/
def cauchyEncode {L : Nat} (rate : Rate) (k r : Nat) (orig : Array (Vector Sym L)) :
    Array (Vector Sym L) :=
  let m := match rate with | .high => npow2 r | .low => npow2 k
  let w := wProd m
  let nums : Array Sym := match rate with
    | .high => Array.ofFn (n := k) fun i => vanishProd m (BitVec.ofNat 16 (m + i.val))
    | .low => Array.ofFn (n := r) fun j => vanishProd m (BitVec.ofNat 16 (m + j.val))
  Array.ofFn (n := r) fun j =>
    (List.range k).foldl (fun acc i =>
      let g : Sym := match rate with
        | .high =>
          let p : Sym := BitVec.ofNat 16 (m + i)
          gmul (nums.getD i 0#16) (ginv (gmul w (BitVec.ofNat 16 j.val ^^^ p)))
        | .low =>
          let p : Sym := BitVec.ofNat 16 (m + j.val)
          gmul (nums.getD j.val 0#16) (ginv (gmul w (p ^^^ BitVec.ofNat 16 i)))
      ShardAlg.add acc (ShardAlg.smul g (orig.getD i (Vector.replicate L 0#16))))
      (Vector.replicate L 0#16)

/-- closed-form recovery shards, bytes in / bytes out -/
def cauchyEncodeBytes (rate : Rate) (k r sb : Nat) (orig : List (Array Nat)) : List (Array Nat) :=
  let lanes : Array (Vector Sym (sb / 2)) := (orig.map (layout sb)).toArray
  ((cauchyEncode rate k r lanes).map (unlayout sb)).toList

/-- multiply every symbol of a shard (bytes) by the field constant `c` -/
def scaleBytes (c : Sym) (sb : Nat) (shard : Array Nat) : Array Nat :=
  unlayout sb ((layout sb shard).map (gmul c))

/-! ### the LCH ("novel") polynomial basis -/

/-- `X_t(x) = Π_{j ∈ bits t} s_j(x)` -/
def lchBasis (t : Nat) (x : Sym) : Sym :=
  (List.range 16).foldl (fun acc j => if t.testBit j then gmul acc (sPoly j x) else acc) gone

/-- value at `x` of the polynomial with LCH coefficients `c` -/
def lchEval (c : Array Sym) (x : Sym) : Sym :=
  (List.range c.size).foldl (fun acc t => acc ^^^ gmul (c.getD t 0#16) (lchBasis t x)) 0#16

/-! ### erasure locator -/

/-- `Π_{j marked, j ≠ x} (x ⊕ j)` -/
def locatorSpec (marks : List Nat) (x : Nat) : Sym :=
  marks.foldl (fun acc j => if j = x then acc else gmul acc (BitVec.ofNat 16 x ^^^ BitVec.ofNat 16 j)) gone

/-! ### truthful errors -/

def truthfulConfig (kind : Kind) (k r sb : Nat) : List Err :=
  (if supports kind k r then [] else [Err.unsupportedShardCount k r]) ++
  (if badShardSize sb then [Err.invalidShardSize sb] else [])

def truthfulEncAdd (e : Encoder) (b : Array Nat) : List Err :=
  match e.inner with
  | .none => []
  | .some _ w =>
    (if w.recv = w.k then [Err.tooManyOriginal w.k] else []) ++
    (if b.size ≠ w.sb then [Err.differentShardSize w.sb b.size] else [])

def truthfulEncode (e : Encoder) : List Err :=
  match e.inner with
  | .none => []
  | .some _ w => if w.recv = w.k then [] else [Err.tooFewOriginal w.k w.recv]

def truthfulDecAddO (d : Decoder) (i : Nat) (b : Array Nat) : List Err :=
  match d.inner with
  | .none => []
  | .some _ w =>
    (if i ≥ w.k then [Err.invalidOriginalIndex w.k i] else []) ++
    (if i < w.k ∧ w.recvAt (w.obase + i) then [Err.duplicateOriginal i] else []) ++
    (if b.size ≠ w.sb then [Err.differentShardSize w.sb b.size] else [])

def truthfulDecAddR (d : Decoder) (i : Nat) (b : Array Nat) : List Err :=
  match d.inner with
  | .none => []
  | .some _ w =>
    (if i ≥ w.r then [Err.invalidRecoveryIndex w.r i] else []) ++
    (if i < w.r ∧ w.recvAt (w.rbase + i) then [Err.duplicateRecovery i] else []) ++
    (if b.size ≠ w.sb then [Err.differentShardSize w.sb b.size] else [])

def truthfulDecode (d : Decoder) : List Err :=
  match d.inner with
  | .none => []
  | .some _ w => if w.orecv + w.rrecv < w.k then [Err.notEnoughShards w.k w.orecv w.rrecv] else []

def truthfulOneShotEncode (k r : Nat) (l : List (Array Nat)) : List Err :=
  (if supportsDefault k r then [] else [Err.unsupportedShardCount k r]) ++
  (if l.length < k then [Err.tooFewOriginal k l.length] else []) ++
  (if l.length > k then [Err.tooManyOriginal k] else []) ++
  (match l with
   | [] => []
   | first :: _ =>
     (if badShardSize first.size then [Err.invalidShardSize first.size] else []) ++
     (l.filter (fun s => s.size ≠ first.size)).map fun s => Err.differentShardSize first.size s.size)

/-- indexes below `bound` that occur more than once -/
def dupIndexes (bound : Nat) (l : List (Nat × Array Nat)) : List Nat :=
  let rec go : List (Nat × Array Nat) → List Nat → List Nat → List Nat
    | [], _, acc => acc
    | (i, _) :: rest, seen, acc =>
      if i < bound ∧ seen.contains i then go rest seen (i :: acc) else go rest (i :: seen) acc
  go l [] []

def distinctValid (bound : Nat) (l : List (Nat × Array Nat)) : Nat :=
  ((l.map (·.1)).filter (· < bound)).eraseDups.length

def truthfulOneShotDecode (k r : Nat) (orig rec : List (Nat × Array Nat)) : List Err :=
  let sbOpt : Option Nat := match rec with
    | first :: _ => some first.2.size
    | [] => match orig with
      | first :: _ => some first.2.size
      | [] => none
  (if supportsDefault k r then [] else [Err.unsupportedShardCount k r]) ++
  (if orig.length + rec.length < k then [Err.notEnoughShards k orig.length rec.length] else []) ++
  (let o := distinctValid k orig; let c := distinctValid r rec
   if o + c < k then [Err.notEnoughShards k o c] else []) ++
  ((orig.filter (fun p => p.1 ≥ k)).map fun p => Err.invalidOriginalIndex k p.1) ++
  ((rec.filter (fun p => p.1 ≥ r)).map fun p => Err.invalidRecoveryIndex r p.1) ++
  ((dupIndexes k orig).map Err.duplicateOriginal) ++
  ((dupIndexes r rec).map Err.duplicateRecovery) ++
  (match sbOpt with
   | none => []
   | some sb =>
     (if badShardSize sb then [Err.invalidShardSize sb] else []) ++
     ((orig ++ rec).filter (fun p => p.2.size ≠ sb)).map fun p => Err.differentShardSize sb p.2.size)

/-! ### envelope staircase -/

/-- largest `r ≤ hi` with `supports kind k r` assuming the supported `r` form an initial segment
    `1 … cap` (theorem `supports_row_form`); 0 if none.  Binary search with fuel. -/
def capSearch (kind : Kind) (k : Nat) : Nat → Nat → Nat → Nat
  | 0, lo, _ => lo
  | f + 1, lo, hi =>
    if lo ≥ hi then lo
    else
      let mid := (lo + hi + 1) / 2
      if supports kind k mid then capSearch kind k f mid hi else capSearch kind k f lo (mid - 1)

def capOf (kind : Kind) (k : Nat) : Nat := capSearch kind k 20 0 65537

end RS
