/-
  Prelude of the generated file `Gen/SrcWork.lean` (see /verif/translate/rs2lean_work.py): the library
  types the translated bookkeeping methods of `EncoderWork` / `DecoderWork` use.
  Import-free.
-/
namespace RS.RustW

/-- `fixedbitset::FixedBitSet` as far as the crate uses it -/
abbrev BitSet := Array Bool

/-- `bs[i]` / `contains(i)`: false out of range (never panics) -/
def BitSet.get (bs : BitSet) (i : Nat) : Bool := bs.getD i false
/-- `set(i, true)` / `insert(i)`: panics when `i >= len` -/
def BitSet.set (bs : BitSet) (i : Nat) : Option BitSet :=
  if i < bs.size then some (bs.setIfInBounds i true) else none
/-- `clear()`: all bits off, the length stays -/
def BitSet.clear (bs : BitSet) : BitSet := Array.replicate bs.size false
/-- `grow(n)`: extends with zero bits when `n > len`, otherwise nothing -/
def BitSet.grow (bs : BitSet) (n : Nat) : BitSet :=
  if n > bs.size then bs ++ Array.replicate (n - bs.size) false else bs
/-- `len()` -/
def BitSet.len (bs : BitSet) : Nat := bs.size

/-- the operations of `Shards` the bookkeeping code calls, on an abstract memory; `none` = panic -/
structure ShardsOps (σ : Type) where
  /-- `insert(index, shard)` -/
  insert : σ → Nat → Array Nat → Option σ
  /-- `resize(shard_count, shard_len_64)` -/
  resize : σ → Nat → Nat → σ
  /-- `undo_last_chunk_encoding(shard_bytes, lo..hi)` -/
  undoLast : σ → Nat → Nat → Nat → Option σ
  /-- `&self[index].as_flattened()[..n]` -/
  slice : σ → Nat → Nat → Option (Array Nat)

end RS.RustW
