/- Support definitions for the translation of the thin API layers (translate/rs2lean_glue.py): the body of a
   wrapper method as a term. Parameters by position, let-bound locals / match binders by order of introduction. -/
namespace RS.RustG

inductive G where
  /-- parameter number `i` (not counting `self`) -/
  | p (i : Nat)
  /-- local number `i` (a `let` or the binder of a `match` arm) -/
  | l (i : Nat)
  | self_
  | none_
  | unreachable
  | path (s : String)
  | field (e : G) (f : String)
  | try_ (e : G)
  | ok (e : G)
  | some_ (e : G)
  /-- `Self(e)` -/
  | selfTuple (e : G)
  /-- `Self { f, … }` with the shorthand fields and what they name -/
  | selfStruct (fs : List (String × G))
  | call (f : G) (args : List G)
  | method (recv : G) (m : String) (args : List G)
  | tuple (es : List G)
  /-- `match scrut { Variant(binder) => body, … }`: (variant, has a binder, body) -/
  | match_ (scrut : G) (arms : List (String × Bool × G))
  /-- `let x = e;` … then the value -/
  | seq (stmts : List G) (val : G)
  | bind (e : G)
  | eff (e : G)
deriving Repr, BEq, Inhabited

end RS.RustG
