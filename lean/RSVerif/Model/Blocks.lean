/-
  `Shards` (src/engine/shards.rs) at the level of the real memory: a flat array of 64-byte blocks,
  `shard_len_64` blocks per shard, 32 low bytes then 32 high bytes per block; `insert` with the split
  tail, `undo_last_chunk_encoding`, and the result slice `as_flattened()[..shard_bytes]`.
  The unused lanes of a final partial block keep whatever was there before (stale bytes).
  `Proofs/BlocksSpec.lean` relates this to the lane model (`layout` / `unlayout` of Model/State.lean).
  Import-free.
-/
import RSVerif.Model.Simd

namespace RS

abbrev Block := Vector Byte 64

/-- one shard of the working memory: `len64` blocks -/
abbrev BShard := Array Block

/-- `Shards::insert` for one shard: whole blocks are copied; a tail of `t = sb % 64` bytes is split into
    `t/2` low bytes (at 0..) and `t/2` high bytes (at 32..) of the last block, other bytes of that
    block are left as they are -/
def bInsert (old : BShard) (shard : Array Nat) : BShard :=
  let sb := shard.size
  let whole := sb / 64
  let t := sb % 64
  Array.ofFn (n := old.size) fun q =>
    if q.val < whole then
      Vector.ofFn fun j => BitVec.ofNat 8 (shard.getD (64 * q.val + j.val) 0)
    else if q.val = whole ∧ t > 0 then
      Vector.ofFn fun j =>
        if j.val < t / 2 then BitVec.ofNat 8 (shard.getD (64 * whole + j.val) 0)
        else if 32 ≤ j.val ∧ j.val < 32 + t / 2 then BitVec.ofNat 8 (shard.getD (64 * whole + t / 2 + (j.val - 32)) 0)
        else (old.getD q.val (Vector.replicate 64 0#8))[j]
    else old.getD q.val (Vector.replicate 64 0#8)

/-- `undo_last_chunk_encoding` for one shard: `last_chunk.copy_within(32..32 + t/2, t/2)` -/
def bUndoLast (s : BShard) (sb : Nat) : BShard :=
  let whole := sb / 64
  let t := sb % 64
  if t = 0 then s
  else
    Array.ofFn (n := s.size) fun q =>
      if q.val = whole then
        let b := s.getD q.val (Vector.replicate 64 0#8)
        Vector.ofFn fun j =>
          if t / 2 ≤ j.val ∧ j.val < t / 2 + t / 2 then b.toArray.getD (32 + (j.val - t / 2)) 0#8 else b[j]
      else s.getD q.val (Vector.replicate 64 0#8)

/-- `&shard.as_flattened()[..shard_bytes]` -/
def bSlice (s : BShard) (sb : Nat) : Array Nat :=
  Array.ofFn (n := sb) fun i => ((s.getD (i.val / 64) (Vector.replicate 64 0#8)).toArray.getD (i.val % 64) 0#8).toNat

/-- the symbol in lane `l` of a shard: block `l / 32`, low byte `l % 32`, high byte `l % 32 + 32` -/
def bLane (s : BShard) (l : Nat) : Sym :=
  let b := s.getD (l / 32) (Vector.replicate 64 0#8)
  BitVec.ofNat 16 ((b.toArray.getD (l % 32) 0#8).toNat + 256 * (b.toArray.getD (l % 32 + 32) 0#8).toNat)

/-- `utils::xor(x, y)`: bytewise xor of two shards -/
def bXor (x y : BShard) : BShard :=
  Array.ofFn (n := x.size) fun q =>
    Vector.zipWith (· ^^^ ·) (x.getD q.val (Vector.replicate 64 0#8)) (y.getD q.val (Vector.replicate 64 0#8))

/-- a multiply kernel applied to every (low byte i, high byte i + 32) pair of every block, as every
    engine's `mul` does; `f` is the symbol-level kernel -/
def bMul (f : Sym → Sym) (x : BShard) : BShard :=
  Array.ofFn (n := x.size) fun q =>
    let b := x.getD q.val (Vector.replicate 64 0#8)
    Vector.ofFn fun j =>
      let i := j.val % 32
      let s : Sym := BitVec.ofNat 16 ((b.toArray.getD i 0#8).toNat + 256 * (b.toArray.getD (i + 32) 0#8).toNat)
      if j.val < 32 then BitVec.ofNat 8 ((f s).toNat % 256) else BitVec.ofNat 8 ((f s).toNat / 256)

end RS
