/- Support definitions for the translation of the byte-level layout code of src/engine/shards.rs
   (translate/rs2lean_bytes.py): byte slices as views, panics as `none`, copies as data. -/
import RSVerif.Model.RustShards

namespace RS.RustB
open RS.RustS

/-- a slice of bytes: bytes `off .. off + len` of the backing vector seen as bytes (64 per block), or of the shard
    given by the caller -/
structure BView where
  off : Nat
  len : Nat
deriving Repr, DecidableEq

/-- one byte copy: (destination byte offset in the backing vector, source byte offset, length); the source is the
    caller's shard for `copy_from_slice` and the backing vector itself for `copy_within` -/
abbrev Copy := Nat × Nat × Nat

/-- `blocks.as_flattened_mut()` -/
def BView.ofBlocks (v : View) : BView := ⟨64 * v.off, 64 * v.len⟩

/-- `blocks[i]` as 64 bytes: panics iff `i >= blocks.len()` -/
def BView.block (v : View) (i : Nat) : Option BView :=
  if i < v.len then some ⟨64 * (v.off + i), 64⟩ else none

def BView.upTo (v : BView) (b : Nat) : Option BView := if b ≤ v.len then some ⟨v.off, b⟩ else none
def BView.from (v : BView) (a : Nat) : Option BView := if a ≤ v.len then some ⟨v.off + a, v.len - a⟩ else none
def BView.range (v : BView) (a b : Nat) : Option BView :=
  if a ≤ b ∧ b ≤ v.len then some ⟨v.off + a, b - a⟩ else none

/-- `v.split_at(m)` / `v.split_at_mut(m)`: panics iff `m > v.len()` -/
def BView.splitAt (v : BView) (m : Nat) : Option (BView × BView) :=
  if m ≤ v.len then some (⟨v.off, m⟩, ⟨v.off + m, v.len - m⟩) else none

/-- `dst.copy_from_slice(src)`: panics iff the lengths differ -/
def BView.copyFromSlice (dst src : BView) : Option Copy :=
  if dst.len = src.len then some (dst.off, src.off, dst.len) else none

/-- `v.copy_within(a..b, d)`: panics iff `a > b`, `b > v.len()` or `d + (b - a) > v.len()` -/
def BView.copyWithin (v : BView) (a b d : Nat) : Option Copy :=
  if a ≤ b ∧ b ≤ v.len ∧ d + (b - a) ≤ v.len then some (v.off + d, v.off + a, b - a) else none

end RS.RustB
