/-
  The table construction algorithms of src/engine/tables.rs transliterated:
  `initialize_exp_log` (LFSR over the field polynomial, conversion to the Cantor basis),
  `initialize_skew` (incremental evaluation of the subspace polynomials on the basis),
  `initialize_log_walsh`, `initialize_mul16`, `initialize_mul128`.
  `Proofs/TableInitSpec.lean` proves that they produce the specified tables (Model/Tables.lean).
  Import-free.
-/
import RSVerif.Model.Tables
import RSVerif.Model.Kernels

namespace RS

/-- `state <<= 1; if state >= GF_ORDER { state ^= GF_POLYNOMIAL }` on a 16-bit state -/
def lfsrStep (state : Nat) : Nat :=
  let s := state * 2
  if s ≥ 65536 then Nat.xor s 0x1002D else s

/-- first loop: `exp[state] = i` for `i in 0..65535` -/
def lfsrFill : Nat → Nat → Nat → Array Nat → Array Nat
  | 0, _, _, a => a
  | n + 1, i, state, a => lfsrFill n (i + 1) (lfsrStep state) (a.setIfInBounds state i)

/-- `log[j + width] = log[j] ^ CANTOR_BASIS[i]` for `i in 0..16`, `j in 0..width`: after it,
    `log[c] = phi c` -/
def cantorFill : Nat → Nat → Array Nat → Array Nat
  | 0, _, a => a
  | n + 1, i, a =>
    let width := 2 ^ i
    let basis := (cantorBasis.getD i 0#16).toNat
    let a := (List.range width).foldl (fun a j => a.setIfInBounds (j + width) (Nat.xor (a.getD j 0) basis)) a
    cantorFill n (i + 1) a

/-- `initialize_exp_log`: returns `(exp, log)` -/
def initExpLog : Array Nat × Array Nat :=
  let exp0 := lfsrFill 65535 0 1 (Array.replicate 65536 0)
  let exp0 := exp0.setIfInBounds 0 65535
  let log0 := cantorFill 16 0 (Array.replicate 65536 0)
  -- for i in 0..GF_ORDER { log[i] = exp[log[i]] }
  let log1 := Array.ofFn (n := 65536) fun i => exp0.getD (log0.getD i.val 0) 0
  -- for i in 0..GF_ORDER { exp[log[i]] = i }   (sequential; later writes win)
  let exp1 := (List.range 65536).foldl (fun e i => e.setIfInBounds (log1.getD i 0) i) exp0
  -- exp[GF_MODULUS] = exp[0]
  let exp2 := exp1.setIfInBounds 65535 (exp1.getD 0 0)
  (exp2, log1)

/-- `tables::mul(x, log_m, exp, log)` on table arrays -/
def tmul (exp log : Array Nat) (x logm : Nat) : Nat :=
  if x = 0 then 0 else exp.getD (addMod (log.getD x 0) logm) 0

/-- the inner `while j < s { skew[j + s] = skew[j] ^ temp[i]; j += step }` -/
def skewInner (step s tempi : Nat) : Nat → Nat → Array Nat → Array Nat
  | 0, _, a => a
  | f + 1, j, a =>
    if j < s then skewInner step s tempi f (j + step) (a.setIfInBounds (j + s) (Nat.xor (a.getD j 0) tempi))
    else a

/-- body of `for m in 0..GF_BITS-1` of `initialize_skew` -/
def skewOuterStep (exp log : Array Nat) (m : Nat) (st : Array Nat × Array Nat) : Array Nat × Array Nat :=
  let (skew, temp) := st
  let step := 2 ^ (m + 1)
  let skew := skew.setIfInBounds (2 ^ m - 1) 0
  -- for i in m..GF_BITS-1
  let skew := (List.range (15 - m)).foldl
    (fun sk d => let i := m + d; let s := 2 ^ (i + 1); skewInner step s (temp.getD i 0) 65536 (2 ^ m - 1) sk) skew
  -- temp[m] = GF_MODULUS - log[mul(temp[m], log[temp[m] ^ 1])]
  let tm := temp.getD m 0
  let tmNew := 65535 - log.getD (tmul exp log tm (log.getD (Nat.xor tm 1) 0)) 0
  let temp := temp.setIfInBounds m tmNew
  -- for i in m+1..GF_BITS-1 { sum = add_mod(log[temp[i]^1], temp[m]); temp[i] = mul(temp[i], sum) }
  let temp := (List.range (14 - m)).foldl
    (fun t d => let i := m + 1 + d; let ti := t.getD i 0
      t.setIfInBounds i (tmul exp log ti (addMod (log.getD (Nat.xor ti 1) 0) tmNew))) temp
  (skew, temp)

/-- `initialize_skew` -/
def initSkew (exp log : Array Nat) : Array Nat :=
  let temp0 : Array Nat := Array.ofFn (n := 15) fun i => 2 ^ (i.val + 1)
  let (skew, _) := (List.range 15).foldl (fun st m => skewOuterStep exp log m st) (Array.replicate 65535 0, temp0)
  -- for i in 0..GF_MODULUS { skew[i] = log[skew[i]] }
  Array.ofFn (n := 65535) fun i => log.getD (skew.getD i.val 0) 0

/-- `initialize_log_walsh` -/
def initLogWalsh (log : Array Nat) : Array Nat := fwht (log.setIfInBounds 0 0) 65536

/-- `initialize_mul16`: entry `[log_m][k][i] = mul(i << 4k, log_m)` -/
def initMul16Entry (exp log : Array Nat) (logm k i : Nat) : Nat := tmul exp log (i * 2 ^ (4 * k)) logm

end RS
