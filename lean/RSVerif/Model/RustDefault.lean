/-
  Prelude of the generated file `Gen/SrcDefault.lean` (see /verif/translate/rs2lean_default.py): the inner
  codec of `DefaultRateEncoder` / `DefaultRateDecoder`.  `Res` / `SrcErr` are those of Model/RustSem.lean.
-/
import RSVerif.Model.RustSem

namespace RS.RustD

/-- `InnerEncoder<E>` / `InnerDecoder<E>`: a dedicated codec (represented by what it holds, `W`), or the
    transient `None` that `std::mem::take` leaves behind -/
inductive DInner (W : Type) where
  | High (w : W)
  | Low (w : W)
  | None
  deriving Repr

end RS.RustD
