/-
  Interpreter of the shard-operation programs that `Gen/SrcEngine.lean` (translated from the current Rust
  source of the engines) returns, on positions of an `Array V`.
-/
import RSVerif.Gen.SrcEngine
import RSVerif.Model.Engine

namespace RS
open RS.RustE RS.SrcE ShardAlg

variable {V : Type} [ShardAlg V]

/-- one shard operation; the multiplier of `skew[idx]` is the field element `skewElem idx` -/
def stepEOp (a : Array V) : EOp → Array V
  | .xor d s => a.setIfInBounds d (add (rd a d) (rd a s))
  | .mulAdd x y i => a.setIfInBounds x (add (rd a x) (smul (skewElem i) (rd a y)))
  | .fftPartial x y i =>
    let a1 := a.setIfInBounds x (add (rd a x) (smul (skewElem i) (rd a y)))
    a1.setIfInBounds y (add (rd a1 y) (rd a1 x))
  | .ifftPartial x y i =>
    let a1 := a.setIfInBounds y (add (rd a y) (rd a x))
    a1.setIfInBounds x (add (rd a1 x) (smul (skewElem i) (rd a1 y)))
  | .xorWithin x y n => xorWithin a x y n

def runE (ops : Array EOp) (a : Array V) : Array V := ops.foldl stepEOp a

/-- what the code tests with `log_m == GF_MODULUS`: the twiddle is the zero element -/
def skewZero (i : Nat) : Bool := decide (skewElem i = 0#16)

end RS
