/-
  Prelude of the generated file `Gen/SrcCodec.lean` (see /verif/translate/rs2lean_codec.py): the engine /
  memory operations a codec body performs, and the loop combinators of the translation.
  Import-free (apart from the geometry helpers `npow2`).
-/
import RSVerif.Model.Codec

namespace RS.RustC

/-- one engine / memory operation of a codec body, with its evaluated `usize` arguments -/
inductive Op where
  /-- `work.zero(a..b)` -/
  | zero (a b : Nat)
  /-- `work.zero(a..)` -/
  | zeroFrom (a : Nat)
  /-- `engine.fft(&mut work, pos, size, truncated_size, skew_delta)` -/
  | fft (pos size trunc delta : Nat)
  | ifft (pos size trunc delta : Nat)
  /-- `engine::fft_skew_end(engine, &mut work, pos, size, truncated_size)` -/
  | fftSkewEnd (pos size trunc : Nat)
  | ifftSkewEnd (pos size trunc : Nat)
  /-- `engine::xor_within(&mut work, x, y, count)` -/
  | xorWithin (x y n : Nat)
  /-- `work.copy_within(src, dest, count)` -/
  | copyWithin (s d n : Nat)
  /-- `engine::formal_derivative(&mut work)` -/
  | formalDerivative
  /-- `erasures[i] = 1` -/
  | mark (i : Nat)
  /-- `erasures[a..b].fill(1)` -/
  | markRange (a b : Nat)
  /-- `erasures[a..].fill(1)` -/
  | markFrom (a : Nat)
  /-- `E::eval_poly(&mut erasures, truncated_size)` -/
  | evalPoly (n : Nat)
  /-- `engine.mul(&mut work[i], erasures[i])` -/
  | mulE (i : Nat)
  /-- `engine.mul(&mut work[i], GF_MODULUS - erasures[i])` -/
  | mulNegE (i : Nat)
  /-- `work[i].fill([0; 64])` -/
  | fill0 (i : Nat)
  /-- `self.work.undo_last_chunk_encoding()` -/
  | undoLast
  deriving DecidableEq, Repr

/-- `for i in a..b { body }` (the body only appends operations) -/
def forRange (a b : Nat) (f : Nat → Array Op → Option (Array Op)) (ops : Array Op) : Option (Array Op) :=
  (List.range' a (b - a)).foldlM (fun o i => f i o) ops

/-- `while cond(x) { body }` with one mutable counter `x`; `none` when the fuel runs out -/
def whileNat : Nat → (Nat → Option Bool) → (Nat → Array Op → Option (Nat × Array Op)) → Nat → Array Op →
    Option (Nat × Array Op)
  | 0, _, _, _, _ => none
  | fuel + 1, c, b, x, ops =>
    match c x with
    | none => none
    | some false => some (x, ops)
    | some true =>
      match b x ops with
      | none => none
      | some (x', ops') => whileNat fuel c b x' ops'

end RS.RustC
