/-
  The SIMD multiply kernel of engine_ssse3.rs (`mul_128`; engine_avx2.rs `mul_256` is the same on two
  128-bit lanes, engine_neon.rs the same with `vqtbl1q_u8` / `vshrq_n_u8`), at the level of 16-byte
  vectors with the documented semantics of the intrinsics it uses.
  Import-free.
-/
import RSVerif.Model.Kernels

namespace RS

abbrev Byte := BitVec 8
abbrev V128 := Vector Byte 16

/-- `_mm_and_si128` -/
def v128and (a b : V128) : V128 := Vector.zipWith (· &&& ·) a b
/-- `_mm_xor_si128` -/
def v128xor (a b : V128) : V128 := Vector.zipWith (· ^^^ ·) a b
/-- `_mm_set1_epi8` -/
def v128set1 (x : Byte) : V128 := Vector.replicate 16 x

/-- the 64-bit little-endian lane `h` (0 or 1) of a vector, as a number -/
def lane64 (a : V128) (h : Nat) : Nat :=
  (List.range 8).foldl (fun acc i => acc + (a.toArray.getD (8 * h + i) 0#8).toNat * 256 ^ i) 0

/-- `_mm_srli_epi64(a, n)`: logical right shift of each 64-bit lane (bits cross byte boundaries) -/
def v128srli64 (a : V128) (n : Nat) : V128 :=
  Vector.ofFn fun i =>
    BitVec.ofNat 8 ((lane64 a (i.val / 8) / 2 ^ n) / 256 ^ (i.val % 8))

/-- `_mm_shuffle_epi8(t, idx)` (pshufb): byte `i` is 0 if bit 7 of `idx[i]` is set,
    else `t[idx[i] & 15]` -/
def v128shuffle (t idx : V128) : V128 :=
  Vector.ofFn fun i =>
    let j := idx[i]
    if j.msb then 0#8 else t.toArray.getD (j.toNat % 16) 0#8

/-- `Multiply128lutT` of a multiplier: `lo[k][v]` / `hi[k][v]` = low / high byte of `lut16 mulf k v` -/
def lutLo (mulf : Sym → Sym) (k : Nat) : V128 :=
  Vector.ofFn fun v => BitVec.ofNat 8 ((lut16 mulf k v.val).toNat % 256)
def lutHi (mulf : Sym → Sym) (k : Nat) : V128 :=
  Vector.ofFn fun v => BitVec.ofNat 8 ((lut16 mulf k v.val).toNat / 256)

/-- `Ssse3::mul_128(value_lo, value_hi, lut)` line by line -/
def mul128 (mulf : Sym → Sym) (valueLo valueHi : V128) : V128 × V128 :=
  let clr := v128set1 0x0f#8
  let data0 := v128and valueLo clr
  let prodLo := v128shuffle (lutLo mulf 0) data0
  let prodHi := v128shuffle (lutHi mulf 0) data0
  let data1 := v128and (v128srli64 valueLo 4) clr
  let prodLo := v128xor prodLo (v128shuffle (lutLo mulf 1) data1)
  let prodHi := v128xor prodHi (v128shuffle (lutHi mulf 1) data1)
  let data0 := v128and valueHi clr
  let prodLo := v128xor prodLo (v128shuffle (lutLo mulf 2) data0)
  let prodHi := v128xor prodHi (v128shuffle (lutHi mulf 2) data0)
  let data1 := v128and (v128srli64 valueHi 4) clr
  let prodLo := v128xor prodLo (v128shuffle (lutLo mulf 3) data1)
  let prodHi := v128xor prodHi (v128shuffle (lutHi mulf 3) data1)
  (prodLo, prodHi)

/-- the 16 symbols held by a (low bytes, high bytes) vector pair -/
def symOf (lo hi : V128) (i : Fin 16) : Sym := BitVec.ofNat 16 (lo[i].toNat + 256 * hi[i].toNat)

end RS
