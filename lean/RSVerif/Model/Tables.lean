/-
  Executable tables of the model: exp / log of the generator, the log-Walsh table of `eval_poly`,
  and the dumps that the correspondence check compares with the crate's statics entry by entry.
  Built by structural recursion so that their contents can be characterised by proof
  (Proofs/TableSpec.lean) without evaluating 65536 entries in the kernel.

  Import-free (linked into `rsmodel`).
-/
import RSVerif.Model.Engine

namespace RS

/-- push `e, g·e, g²·e, …` (`n` entries) -/
def expBuild : Nat → Sym → Array Sym → Array Sym
  | 0, _, a => a
  | n + 1, e, a => expBuild n (gmul gen e) (a.push e)

/-- `expArr[k] = g^k` for `k = 0 … 65535` (so `expArr[65535] = g^65535`). -/
def expArr : Array Sym := expBuild 65536 gone (Array.mkEmpty 65536)

/-- scatter: for `k, k+1, …` (`n` entries) set `a[exp k] := k` -/
def logBuild : Nat → Nat → Array Nat → Array Nat
  | 0, _, a => a
  | n + 1, k, a => logBuild n (k + 1) (a.setIfInBounds (expArr.getD k 0#16).toNat k)

/-- `logArr[g^k] = k` for `k < 65535`, `logArr[0] = 65535` (the crate's "log of zero"). -/
def logArr : Array Nat := logBuild 65535 0 (Array.replicate 65536 65535)

/-- the table that is transformed into `LOG_WALSH`: `log` with entry 0 replaced by 0 -/
def lgArr : Array Nat := logArr.setIfInBounds 0 0

/-- `LOG_WALSH`: FWHT of `log` with entry 0 replaced by 0. -/
def logWalshArr : Array Nat := fwht lgArr 65536

/-- `SKEW[i]` as the crate stores it: `log (skewElem i)`, 65535 where the element is zero. -/
def skewLog (i : Nat) : Nat := logArr.getD (skewElem i).toNat 0

/-- fast `g^m` through the table (exe only; equals `gexp m` for `m ≤ 65535`) -/
def gexpFast (m : Nat) : Sym := expArr.getD m 0#16

end RS
