/-
  Executable tables of the model (used by `rsmodel` only; no theorem evaluates them):
  exp / log of the generator, the log-Walsh table of `eval_poly`, and the dumps that the
  correspondence check compares with the crate's statics entry by entry.

  Import-free (linked into `rsmodel`).
-/
import RSVerif.Model.Engine

namespace RS

/-- `expArr[k] = g^k` for `k = 0 … 65535` (so `expArr[65535] = g^65535`). -/
def expArr : Array Sym := Id.run do
  let mut a : Array Sym := Array.mkEmpty 65536
  let mut e : Sym := gone
  for _ in [0:65536] do
    a := a.push e
    e := gmul gen e
  return a

/-- `logArr[g^k] = k` for `k < 65535`, `logArr[0] = 65535` (the crate's "log of zero"). -/
def logArr : Array Nat := Id.run do
  let mut a : Array Nat := Array.replicate 65536 65535
  for k in [0:65535] do
    a := a.set! (expArr[k]!).toNat k
  return a

/-- `LOG_WALSH`: FWHT of `log` with entry 0 replaced by 0. -/
def logWalshArr : Array Nat := fwht (logArr.set! 0 0) 65536

/-- `SKEW[i]` as the crate stores it: `log (skewElem i)`, 65535 where the element is zero. -/
def skewLog (i : Nat) : Nat := logArr[(skewElem i).toNat]!

/-- fast `g^m` through the table (exe only; equals `gexp m` for `m ≤ 65535`) -/
def gexpFast (m : Nat) : Sym := expArr[m]!

end RS
