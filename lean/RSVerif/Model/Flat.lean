/-
  The flat working memory `Shards` / `ShardsRefMut` of src/engine/shards.rs with its index arithmetic
  as written: one `Vec<[u8; 64]>` of `shard_count * shard_len_64` blocks; every accessor multiplies
  shard positions by `shard_len_64` and slices / splits the flat array.

  Every accessor that can panic on a slice or split bound returns `Option` (`none` = panic), with the
  Rust semantics
    `&s[a..b]`            panics iff `a > b` or `b > s.len()`,
    `&s[a..]`             panics iff `a > s.len()`,
    `&s[..b]`             panics iff `b > s.len()`,
    `s.split_at_mut(m)`   panics iff `m > s.len()`,
    `s.copy_within(a..a+c, d)` panics iff `a + c > s.len()` or `d + c > s.len()`; memmove semantics.
  `usize` arithmetic is modelled by `Nat` (no overflow); the one subtraction (`shard_count - mid` in
  `split_at_mut`) is modelled as a panic when it would underflow (debug-build semantics).

  Part A: a shard of `n` blocks (`BVec n`) as a shard algebra: xor bytewise, multiplication
  symbol-wise on the (byte i, byte i+32) pairs of every block, exactly the per-block bodies of
  `bXor` / `bMul` of Model/Blocks.lean.

  `Proofs/FlatSpec.lean` proves that this refines the position-level arrays of Model/Engine.lean.
  Import-free (core Lean only).
-/
import RSVerif.Model.SimdBlock

namespace RS

/-! ## Part A: block memory as a shard algebra -/

/-- `[0u8; 64]` -/
def zeroBlock : Block := Vector.replicate 64 0#8

-- `blockXor` (bytewise xor of two blocks, the per-block body of `bXor`) is the one of Model/SimdBlock.lean

/-- a symbol-level kernel applied to the 32 (low byte `i`, high byte `i + 32`) pairs of one block
    (the per-block body of `bMul`) -/
def blockMul (f : Sym → Sym) (b : Block) : Block :=
  Vector.ofFn fun j =>
    let i := j.val % 32
    let s : Sym := BitVec.ofNat 16 ((b.toArray.getD i 0#8).toNat + 256 * (b.toArray.getD (i + 32) 0#8).toNat)
    if j.val < 32 then BitVec.ofNat 8 ((f s).toNat % 256) else BitVec.ofNat 8 ((f s).toNat / 256)

/-- a shard of `n = shard_len_64` blocks -/
abbrev BVec (n : Nat) := Vector Block n

instance instShardAlgBVec (n : Nat) : ShardAlg (BVec n) where
  zero := Vector.replicate n zeroBlock
  add x y := Vector.zipWith blockXor x y
  smul c x := x.map (blockMul (gmul c))

/-- the `32 n` symbols of a shard: lane `l` is symbol `l % 32` of block `l / 32` (as `bLane`) -/
def bvecLanes (n : Nat) (x : BVec n) : Vector Sym (32 * n) :=
  Vector.ofFn fun l => bLane x.toArray l.val

/-- a slice of blocks as a shard of exactly `n` blocks (missing blocks read as zero; never taken when
    the slice has `n` blocks) -/
def toBVec (n : Nat) (s : Array Block) : BVec n :=
  Vector.ofFn fun k => s.getD k.val zeroBlock

/-! ## Part B: the flat array -/

/-! ### Rust slice primitives on `[[u8; 64]]` -/

/-- `&s[a..b]` -/
def sliceRange (s : Array Block) (a b : Nat) : Option (Array Block) :=
  if a ≤ b ∧ b ≤ s.size then some (s.extract a b) else none

/-- `&s[a..]` -/
def sliceFrom (s : Array Block) (a : Nat) : Option (Array Block) :=
  if a ≤ s.size then some (s.extract a s.size) else none

/-- `&s[..b]` -/
def sliceTo (s : Array Block) (b : Nat) : Option (Array Block) :=
  if b ≤ s.size then some (s.extract 0 b) else none

/-- `s.split_at_mut(m)` -/
def splitAtMut (s : Array Block) (m : Nat) : Option (Array Block × Array Block) :=
  if m ≤ s.size then some (s.extract 0 m, s.extract m s.size) else none

/-- writing the contents `s` through a mutable view that starts at block `off` of `d` -/
def writeAt (d : Array Block) (off : Nat) (s : Array Block) : Array Block :=
  Array.ofFn (n := d.size) fun j =>
    if off ≤ j.val ∧ j.val < off + s.size then s.getD (j.val - off) zeroBlock else d[j]

/-- `d[s..e].fill([0; 64])` (bounds already checked) -/
def fillRange (d : Array Block) (s e : Nat) : Array Block :=
  Array.ofFn (n := d.size) fun j => if s ≤ j.val ∧ j.val < e then zeroBlock else d[j]

/-- `d.copy_within(s..s+c, t)` (bounds already checked): memmove, every source block is read from
    the old contents -/
def moveRange (d : Array Block) (s t c : Nat) : Array Block :=
  Array.ofFn (n := d.size) fun j =>
    if t ≤ j.val ∧ j.val < t + c then d.getD (s + (j.val - t)) zeroBlock else d[j]

/-- `Vec::resize(m, [0; 64])`: truncate, or extend with zero blocks; the kept prefix is untouched -/
def vecResize (d : Array Block) (m : Nat) : Array Block :=
  if m ≤ d.size then d.extract 0 m else d ++ Array.replicate (m - d.size) zeroBlock

/-! ### `Shards` / `ShardsRefMut` -/

structure Flat where
  /-- `shard_count` -/
  count : Nat
  /-- `shard_len_64` -/
  len64 : Nat
  /-- `data` -/
  data : Array Block

namespace Flat

/-- the representation invariant: `data.len() == shard_count * shard_len_64` -/
def WF (f : Flat) : Prop := f.data.size = f.count * f.len64

instance (f : Flat) : Decidable f.WF := inferInstanceAs (Decidable (_ = _))

/-- `Shards::new()` -/
def empty : Flat := ⟨0, 0, #[]⟩

/-- `ShardsRefMut::new(shard_count, shard_len_64, data)`:
    `assert!(data.len() >= shard_count * shard_len_64)`, `&mut data[..shard_count * shard_len_64]` -/
def new (count len64 : Nat) (data : Array Block) : Option Flat :=
  if count * len64 ≤ data.size then
    (sliceTo data (count * len64)).bind fun d => some ⟨count, len64, d⟩
  else none

/-- `Shards::resize(shard_count, shard_len_64)` (without the `verif-hooks` poisoning) -/
def resize (f : Flat) (count len64 : Nat) : Flat :=
  ⟨count, len64, vecResize f.data (count * len64)⟩

/-- `Index<usize>`: `&self.data[index * shard_len_64 .. (index + 1) * shard_len_64]` -/
def shard (f : Flat) (i : Nat) : Option (Array Block) :=
  sliceRange f.data (i * f.len64) ((i + 1) * f.len64)

/-- writing `s` through the view returned by `IndexMut<usize>` -/
def setShard (f : Flat) (i : Nat) (s : Array Block) : Flat :=
  { f with data := writeAt f.data (i * f.len64) s }

/-- `dist2_mut(pos, dist)` -/
def dist2 (f : Flat) (pos dist : Nat) : Option (Array Block × Array Block) :=
  let pos := pos * f.len64
  let dist := dist * f.len64
  (sliceFrom f.data pos).bind fun s =>
  (splitAtMut s dist).bind fun ab =>
  (sliceTo ab.1 f.len64).bind fun a =>
  (sliceTo ab.2 f.len64).bind fun b =>
  some (a, b)

/-- writing `a`, `b` through the two views of `dist2_mut(pos, dist)` -/
def putDist2 (f : Flat) (pos dist : Nat) (a b : Array Block) : Flat :=
  let pos := pos * f.len64
  let dist := dist * f.len64
  { f with data := writeAt (writeAt f.data pos a) (pos + dist) b }

/-- `dist4_mut(pos, dist)` -/
def dist4 (f : Flat) (pos dist : Nat) :
    Option (Array Block × Array Block × Array Block × Array Block) :=
  let pos := pos * f.len64
  let dist := dist * f.len64
  (sliceFrom f.data pos).bind fun s =>
  (splitAtMut s (dist * 2)).bind fun abcd =>
  (splitAtMut abcd.1 dist).bind fun ab =>
  (splitAtMut abcd.2 dist).bind fun cd =>
  (sliceTo ab.1 f.len64).bind fun a =>
  (sliceTo ab.2 f.len64).bind fun b =>
  (sliceTo cd.1 f.len64).bind fun c =>
  (sliceTo cd.2 f.len64).bind fun d =>
  some (a, b, c, d)

/-- writing through the four views of `dist4_mut(pos, dist)` -/
def putDist4 (f : Flat) (pos dist : Nat) (a b c d : Array Block) : Flat :=
  let pos := pos * f.len64
  let dist := dist * f.len64
  let d1 := writeAt f.data pos a
  let d2 := writeAt d1 (pos + dist) b
  let d3 := writeAt d2 (pos + dist * 2) c
  { f with data := writeAt d3 (pos + dist * 2 + dist) d }

/-- `split_at_mut(mid)`; `self.shard_count - mid` underflowing is a panic -/
def splitAt (f : Flat) (mid : Nat) : Option (Flat × Flat) :=
  (splitAtMut f.data (mid * f.len64)).bind fun ab =>
  (Flat.new mid f.len64 ab.1).bind fun l =>
  if mid ≤ f.count then
    (Flat.new (f.count - mid) f.len64 ab.2).bind fun r => some (l, r)
  else none

/-- `zero(start..end_)` (`Bound::Included(start)`, `Bound::Excluded(end_)`):
    `self.data[start * shard_len_64 .. end_ * shard_len_64].fill([0; 64])` -/
def zero (f : Flat) (start end_ : Nat) : Option Flat :=
  let s := start * f.len64
  let e := end_ * f.len64
  if s ≤ e ∧ e ≤ f.data.size then some { f with data := fillRange f.data s e } else none

/-- `zero(start..)` (`Bound::Unbounded` end: `shard_count * shard_len_64`) -/
def zeroFrom (f : Flat) (start : Nat) : Option Flat :=
  let s := start * f.len64
  let e := f.count * f.len64
  if s ≤ e ∧ e ≤ f.data.size then some { f with data := fillRange f.data s e } else none

/-- `copy_within(src, dest, count)` -/
def copyWithin (f : Flat) (src dest count : Nat) : Option Flat :=
  let src := src * f.len64
  let dest := dest * f.len64
  let count := count * f.len64
  if src + count ≤ f.data.size ∧ dest + count ≤ f.data.size then
    some { f with data := moveRange f.data src dest count }
  else none

/-- `flat2_mut(x, y, count)` -/
def flat2 (f : Flat) (x y count : Nat) : Option (Array Block × Array Block) :=
  let x := x * f.len64
  let y := y * f.len64
  let count := count * f.len64
  if x < y then
    (splitAtMut f.data y).bind fun ht =>
    (sliceRange ht.1 x (x + count)).bind fun xs =>
    (sliceTo ht.2 count).bind fun ys =>
    some (xs, ys)
  else
    (splitAtMut f.data x).bind fun ht =>
    (sliceTo ht.2 count).bind fun xs =>
    (sliceRange ht.1 y (y + count)).bind fun ys =>
    some (xs, ys)

/-- writing through the two views of `flat2_mut(x, y, count)` -/
def putFlat2 (f : Flat) (x y : Nat) (xs ys : Array Block) : Flat :=
  let x := x * f.len64
  let y := y * f.len64
  { f with data := writeAt (writeAt f.data x xs) y ys }

/-! ### operations built from the views (as the engines use them) -/

/-- `utils::xor_within(data, x, y, count)`: `let (xs, ys) = data.flat2_mut(x, y, count); xor(xs, ys)` -/
def xorWithin (f : Flat) (x y count : Nat) : Option Flat :=
  (f.flat2 x y count).bind fun v => some (f.putFlat2 x y (bXor v.1 v.2) v.2)

/-- the fft butterfly of every engine on the views of `dist2_mut(pos, dist)`:
    `mul_add(a, b, log_m); xor(b, a)` with `c = exp(log_m)` (`c = 0`: xor only) -/
def fftBfly (c : Sym) (f : Flat) (pos dist : Nat) : Option Flat :=
  (f.dist2 pos dist).bind fun v =>
    let a := bXor v.1 (bMul (gmul c) v.2)
    let b := bXor v.2 a
    some (f.putDist2 pos dist a b)

/-- the ifft butterfly: `xor(b, a); mul_add(a, b, log_m)` -/
def ifftBfly (c : Sym) (f : Flat) (pos dist : Nat) : Option Flat :=
  (f.dist2 pos dist).bind fun v =>
    let b := bXor v.2 v.1
    let a := bXor v.1 (bMul (gmul c) b)
    some (f.putDist2 pos dist a b)

/-! ### abstraction -/

/-- the `count` shards, each the `len64` blocks `data[i * len64 .. (i + 1) * len64]` -/
def abs (f : Flat) : Array (Array Block) :=
  Array.ofFn (n := f.count) fun i => f.data.extract (i.val * f.len64) ((i.val + 1) * f.len64)

/-- the shards as vectors of exactly `n` blocks (`n = len64` is the meaningful instance) -/
def absAt (n : Nat) (f : Flat) : Array (BVec n) :=
  Array.ofFn (n := f.count) fun i => Vector.ofFn fun k => f.data.getD (i.val * n + k.val) zeroBlock

/-- the position-level array of shards that Model/Engine.lean works on -/
def absV (f : Flat) : Array (BVec f.len64) := f.absAt f.len64

end Flat

end RS
