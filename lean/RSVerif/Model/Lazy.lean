/-
  Lazy initialisation of the global tables (`std::sync::LazyLock` statics of
  src/engine/tables.rs) as a transition system over threads.

  A cell is `uninit`, `running t` (thread `t` executes its initialiser) or `done`.
  A thread has a stack of frames: the cells whose initialisers it is executing (innermost first),
  each with the list of dependencies it still has to force, and a list of cells it still wants to
  force at top level (what its engine constructors / rounds touch).
  `force c` by thread `t`: `done` → continue; `uninit` → becomes `running t`, push a frame;
  `running t'` with `t' ≠ t` → the thread blocks (no step) until the cell is `done`;
  `running t` (re-entrancy) → stuck forever: `LazyLock` would deadlock / panic.
  Import-free.
-/
namespace RS

inductive CellState where
  | uninit
  | running (t : Nat)
  | done
  deriving DecidableEq, Repr

structure Frame where
  cell : Nat
  /-- dependencies this initialiser still has to force, in order -/
  todo : List Nat
  deriving DecidableEq, Repr

structure Thread where
  stack : List Frame := []
  /-- cells still to be forced at top level -/
  wants : List Nat := []
  deriving DecidableEq, Repr

structure LazySys where
  cells : List CellState
  threads : List Thread
  deriving DecidableEq, Repr

def LazySys.cell (s : LazySys) (c : Nat) : CellState := s.cells.getD c .done

/-- the next cell thread `t` has to force (from the innermost frame, else from its wants) -/
def Thread.nextForce (th : Thread) : Option Nat :=
  match th.stack with
  | f :: _ => f.todo.head?
  | [] => th.wants.head?

/-- drop the head of the current todo list -/
def Thread.advance (th : Thread) : Thread :=
  match th.stack with
  | f :: rest => { th with stack := { f with todo := f.todo.tail } :: rest }
  | [] => { th with wants := th.wants.tail }

/-- one step of thread `t` under the dependency function `deps`; `none` = thread cannot move -/
def LazySys.step (deps : Nat → List Nat) (s : LazySys) (t : Nat) : Option LazySys :=
  match s.threads[t]? with
  | none => none
  | some th =>
    match th.nextForce with
    | some c =>
      match s.cell c with
      | .done => some { s with threads := s.threads.set t th.advance }
      | .uninit =>
        some { cells := s.cells.set c (.running t),
               threads := s.threads.set t { th with stack := { cell := c, todo := deps c } :: th.stack } }
      | .running _ => none            -- blocked on another thread, or re-entrant: no step
    | none =>
      match th.stack with
      | f :: rest =>
        -- initialiser finished: publish the cell, pop the frame, continue what forced it
        let th' : Thread := { th with stack := rest }
        some { cells := s.cells.set f.cell .done, threads := s.threads.set t th'.advance }
      | [] => none                     -- thread finished

def Thread.finished (th : Thread) : Bool := th.stack.isEmpty && th.wants.isEmpty

def LazySys.allFinished (s : LazySys) : Bool := s.threads.all Thread.finished

/-- initial system: all cells uninitialised, thread `i` wants `wants[i]` -/
def LazySys.init (nCells : Nat) (wants : List (List Nat)) : LazySys :=
  { cells := List.replicate nCells .uninit, threads := wants.map fun w => { wants := w } }

/-- a schedule is a list of thread indexes; steps that are not enabled are skipped -/
def LazySys.run (deps : Nat → List Nat) (s : LazySys) : List Nat → LazySys
  | [] => s
  | t :: ts => LazySys.run deps ((s.step deps t).getD s) ts

end RS
