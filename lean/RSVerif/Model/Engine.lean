/-
  Engine primitives of reed-solomon-simd over an abstract shard algebra.

  A shard value `V` only needs zero, xor (`add`) and multiplication by a field element
  (`smul`); the crate's kernels act lane-wise on 16-bit symbols, so `V` is instantiated by a
  single symbol (`Sym`) or by a vector of lanes (`Vector Sym L`).

  fft / ifft are written one butterfly layer at a time, *pointwise*: the new value of work
  position `p` is given as a function of the old array.  A schedule is the list of layers with,
  per layer, the predicate saying which blocks are processed; `Sched.naive` is
  `engine_naive.rs`, `Sched.twoLayer` is the two-layers-at-a-time schedule that
  engine_nosimd/ssse3/avx2/neon.rs share.

  Import-free (linked into `rsmodel`).
-/
import RSVerif.Model.Field

namespace RS

class ShardAlg (V : Type) where
  zero : V
  add : V → V → V
  smul : Sym → V → V

instance : ShardAlg Sym where
  zero := 0#16
  add a b := a ^^^ b
  smul c x := gmul c x

instance {L : Nat} : ShardAlg (Vector Sym L) where
  zero := Vector.replicate L 0#16
  add a b := Vector.zipWith (· ^^^ ·) a b
  smul c x := x.map (gmul c)

open ShardAlg

variable {V : Type} [ShardAlg V]

/-- read with the out-of-range default `zero` (never taken on contract-valid calls) -/
@[inline] def rd (a : Array V) (i : Nat) : V := a.getD i zero

/-! ### butterfly layers -/

/-- FFT butterfly layer at distance `d` on `a[pos .. pos+size]`:
    for a processed block `r` (multiple of `2d`, relative to `pos`) and `i ∈ [r, r+d)`:
    `x' = x ⊕ c·y`, `y' = y ⊕ x'` with `x = a[pos+i]`, `y = a[pos+i+d]`,
    `c = skewElem (r + d + delta - 1)` (`c = 0` is the crate's "log_m = 65535: xor only"). -/
def fftLayer (delta : Nat) (proc : Nat → Bool) (d pos size : Nat) (a : Array V) : Array V :=
  Array.ofFn (n := a.size) fun p =>
    let p := p.val
    if pos ≤ p ∧ p < pos + size then
      let i := p - pos
      let r := i / (2 * d) * (2 * d)
      if proc r then
        let c := skewElem (r + d + delta - 1)
        if i % (2 * d) < d then
          add (rd a p) (smul c (rd a (p + d)))
        else
          add (rd a p) (add (rd a (p - d)) (smul c (rd a p)))
      else rd a p
    else rd a p

/-- IFFT butterfly layer: `y' = y ⊕ x`, `x' = x ⊕ c·y'`. -/
def ifftLayer (delta : Nat) (proc : Nat → Bool) (d pos size : Nat) (a : Array V) : Array V :=
  Array.ofFn (n := a.size) fun p =>
    let p := p.val
    if pos ≤ p ∧ p < pos + size then
      let i := p - pos
      let r := i / (2 * d) * (2 * d)
      if proc r then
        let c := skewElem (r + d + delta - 1)
        if i % (2 * d) < d then
          add (rd a p) (smul c (add (rd a (p + d)) (rd a p)))
        else
          add (rd a p) (rd a (p - d))
      else rd a p
    else rd a p

/-! ### schedules -/

inductive Sched where
  | naive
  | twoLayer
  deriving DecidableEq, Repr

/-- a layer of a plan: distance and processed-block predicate (block start relative to `pos`) -/
abbrev Layer := Nat × (Nat → Bool)

/-- Naive fft: distances `2^(n-1), …, 1`, each block `r` processed iff `r < trunc`. -/
def naiveFftPlan (trunc : Nat) : Nat → List Layer
  | 0 => []
  | n + 1 => (2 ^ n, fun r => decide (r < trunc)) :: naiveFftPlan trunc n

/-- Naive ifft: distances `1, …, 2^(n-1)`. `lvl` is the level of the next layer. -/
def naiveIfftPlan (trunc : Nat) (lvl : Nat) : Nat → List Layer
  | 0 => []
  | m + 1 => (2 ^ lvl, fun r => decide (r < trunc)) :: naiveIfftPlan trunc (lvl + 1) m

/-- Two-layer fft (`fft_private`): pairs from the top; in a pair the larger-distance layer has
    `r < trunc`, the smaller-distance layer is done for the whole group `⌊r/4d⌋·4d < trunc`;
    an unpaired last layer (distance 1) has `r < trunc`. -/
def twoFftPlan (trunc : Nat) : Nat → List Layer
  | 0 => []
  | 1 => [(1, fun r => decide (r < trunc))]
  | n + 2 =>
    (2 ^ (n + 1), fun r => decide (r < trunc)) ::
    (2 ^ n, fun r => decide (r / 2 ^ (n + 2) * 2 ^ (n + 2) < trunc)) ::
    twoFftPlan trunc n

/-- Two-layer ifft (`ifft_private`): pairs from the bottom; the unpaired top layer is processed
    unconditionally (the code does not look at `truncated_size` there). -/
def twoIfftPlan (trunc : Nat) (lvl : Nat) : Nat → List Layer
  | 0 => []
  | 1 => [(2 ^ lvl, fun _ => true)]
  | m + 2 =>
    (2 ^ lvl, fun r => decide (r / 2 ^ (lvl + 2) * 2 ^ (lvl + 2) < trunc)) ::
    (2 ^ (lvl + 1), fun r => decide (r < trunc)) ::
    twoIfftPlan trunc (lvl + 2) m

def fftPlan (s : Sched) (n trunc : Nat) : List Layer :=
  match s with
  | .naive => naiveFftPlan trunc n
  | .twoLayer => twoFftPlan trunc n

def ifftPlan (s : Sched) (n trunc : Nat) : List Layer :=
  match s with
  | .naive => naiveIfftPlan trunc 0 n
  | .twoLayer => twoIfftPlan trunc 0 n

def runFftPlan (delta pos size : Nat) (plan : List Layer) (a : Array V) : Array V :=
  plan.foldl (fun a l => fftLayer delta l.2 l.1 pos size a) a

def runIfftPlan (delta pos size : Nat) (plan : List Layer) (a : Array V) : Array V :=
  plan.foldl (fun a l => ifftLayer delta l.2 l.1 pos size a) a

/-- `Engine::fft(data, pos, size, truncated_size, skew_delta)`; `size` must be `2^n`. -/
def fft (s : Sched) (a : Array V) (pos size trunc delta : Nat) : Array V :=
  runFftPlan delta pos size (fftPlan s (Nat.log2 size) trunc) a

/-- `Engine::ifft(data, pos, size, truncated_size, skew_delta)`. -/
def ifft (s : Sched) (a : Array V) (pos size trunc delta : Nat) : Array V :=
  runIfftPlan delta pos size (ifftPlan s (Nat.log2 size) trunc) a

/-! ### other shard operations -/

/-- `ShardsRefMut::zero(lo..hi)` -/
def zeroRange (a : Array V) (lo hi : Nat) : Array V :=
  Array.ofFn (n := a.size) fun p => if lo ≤ p.val ∧ p.val < hi then zero else rd a p.val

/-- `xor_within(data, x, y, count)`: `data[x..x+count] ^= data[y..y+count]` (ranges disjoint). -/
def xorWithin (a : Array V) (x y count : Nat) : Array V :=
  (List.range count).foldl (fun a i => a.setIfInBounds (x + i) (add (rd a (x + i)) (rd a (y + i)))) a

/-- `ShardsRefMut::copy_within(src, dest, count)` for non-overlapping ranges. -/
def copyWithin (a : Array V) (src dest count : Nat) : Array V :=
  (List.range count).foldl (fun a i => a.setIfInBounds (dest + i) (rd a (src + i))) a

/-- `utils::formal_derivative`: for `i` in `1..len`: `data[i-w..i] ^= data[i..i+w]`, `w = 2^tz(i)`. -/
def formalDerivative (a : Array V) : Array V :=
  (List.range (a.size - 1)).foldl
    (fun a k => let i := k + 1; let w := 2 ^ tz i; xorWithin a (i - w) i w) a

/-- `Engine::mul(x, log_m)`: multiply by `g^log_m` (`log_m = 65535` is `g^65535 = 1`). -/
def mulLog (v : V) (m : Nat) : V := smul (gexp m) v

/-! ### mod-65535 arithmetic and the Walsh transform of `eval_poly` -/

/-- `utils::add_mod` on u16 values: `(x + y) mod 65535` with 65535 also standing for 0. -/
def addMod (x y : Nat) : Nat :=
  let s := x + y
  (s + s / 65536) % 65536

/-- `utils::sub_mod`: u32 wrapping subtraction, then fold the borrow. -/
def subMod (x y : Nat) : Nat :=
  let d := (x + 4294967296 - y) % 4294967296
  ((d + d / 65536) % 4294967296) % 65536

/-- one radix-4 FWHT pass at distance `dist` (`fwht_4` on every group starting below `mtrunc`). -/
def fwhtLayer (dist mtrunc : Nat) (a : Array Nat) : Array Nat :=
  Array.ofFn (n := a.size) fun p =>
    let p := p.val
    let g := p / (4 * dist) * (4 * dist)
    if g < mtrunc then
      let o := p - g
      let b := g + o % dist
      let v0 := a.getD b 0
      let v1 := a.getD (b + dist) 0
      let v2 := a.getD (b + 2 * dist) 0
      let v3 := a.getD (b + 3 * dist) 0
      let s0 := addMod v0 v1
      let d0 := subMod v0 v1
      let s1 := addMod v2 v3
      let d1 := subMod v2 v3
      match o / dist with
      | 0 => addMod s0 s1
      | 1 => addMod d0 d1
      | 2 => subMod s0 s1
      | _ => subMod d0 d1
    else a.getD p 0

/-- `fwht(data, m_truncated)` on 65536 entries: distances 1, 4, …, 16384. -/
def fwht (a : Array Nat) (mtrunc : Nat) : Array Nat :=
  [1, 4, 16, 64, 256, 1024, 4096, 16384].foldl (fun a d => fwhtLayer d mtrunc a) a

/-- `utils::eval_poly` given the `LOG_WALSH` table. -/
def evalPolyWith (logWalsh : Array Nat) (erasures : Array Nat) (trunc : Nat) : Array Nat :=
  let e1 := fwht erasures trunc
  let e2 := Array.ofFn (n := e1.size) fun p =>
    let product := e1.getD p.val 0 * logWalsh.getD p.val 0
    addMod (product % 65536) (product / 65536)
  fwht e2 65536

end RS
