/-
  The three multiplication kernels of the engines, at the level of one 16-bit symbol:
  * `mulExpLog`  — `tables::mul` used by Naive: `exp[add_mod(log[x], log_m)]`,
  * `mulNibble`  — NoSimd: four 16-entry tables indexed by the nibbles of the symbol (`Mul16`),
  * `mulShuffle` — Ssse3 / Avx2 / Neon: the same four nibbles, low and high product bytes looked
                   up separately in eight 16-byte tables (`Mul128`, byte shuffle).
  `mulf` is the symbol-level map the tables were filled from (`x ↦ x ⊗ g^log_m`).
  Import-free.
-/
import RSVerif.Model.Engine

namespace RS

/-- `tables::mul(x, log_m, exp, log)` -/
def mulExpLog (exp : Nat → Sym) (log : Sym → Nat) (x : Sym) (m : Nat) : Sym :=
  if x = 0#16 then 0#16 else exp (addMod (log x) m)

/-- `Mul16[log_m][k][i] = mul(i << 4k, log_m)` -/
def lut16 (mulf : Sym → Sym) (k i : Nat) : Sym := mulf (BitVec.ofNat 16 (i * 2 ^ (4 * k)))

/-- NoSimd kernel: `lut[0][lo & 15] ^ lut[1][lo >> 4] ^ lut[2][hi & 15] ^ lut[3][hi >> 4]` -/
def mulNibble (mulf : Sym → Sym) (x : Sym) : Sym :=
  let lo := x.toNat % 256
  let hi := x.toNat / 256
  lut16 mulf 0 (lo % 16) ^^^ lut16 mulf 1 (lo / 16) ^^^ lut16 mulf 2 (hi % 16) ^^^ lut16 mulf 3 (hi / 16)

/-- low byte of a symbol as a symbol -/
def loByte (s : Sym) : Sym := s &&& 0x00FF#16
/-- high byte of a symbol, in place -/
def hiByte (s : Sym) : Sym := s &&& 0xFF00#16

/-- SIMD kernel: the low product bytes come from the `lo` tables, the high product bytes from
    the `hi` tables (each table holds one byte of `lut16`), combined per byte. -/
def mulShuffle (mulf : Sym → Sym) (x : Sym) : Sym :=
  let lo := x.toNat % 256
  let hi := x.toNat / 256
  let t0 := lut16 mulf 0 (lo % 16)
  let t1 := lut16 mulf 1 (lo / 16)
  let t2 := lut16 mulf 2 (hi % 16)
  let t3 := lut16 mulf 3 (hi / 16)
  (loByte t0 ^^^ loByte t1 ^^^ loByte t2 ^^^ loByte t3) |||
  (hiByte t0 ^^^ hiByte t1 ^^^ hiByte t2 ^^^ hiByte t3)

end RS
