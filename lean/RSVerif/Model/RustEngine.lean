/-
  Prelude of the generated file `Gen/SrcEngine.lean` (see /verif/translate/rs2lean_engine.py): the shard
  operations a transform loop nest performs, and the loop combinators of the translation.
-/
import RSVerif.Model.Codec

namespace RS.RustE

/-- one shard operation of a transform, with evaluated positions / skew-table index -/
inductive EOp where
  /-- `utils::xor(dst, src)`: `dst ^= src` -/
  | xor (dst src : Nat)
  /-- `Naive::mul_add(x, y, skew[idx])`: `x ^= y * skew[idx]` -/
  | mulAdd (x y idx : Nat)
  /-- `fft_butterfly_partial(x, y, skew[idx])`: `x ^= y * m; y ^= x` -/
  | fftPartial (x y idx : Nat)
  /-- `ifft_butterfly_partial(x, y, skew[idx])`: `y ^= x; x ^= y * m` -/
  | ifftPartial (x y idx : Nat)
  /-- `utils::xor_within(data, x, y, count)` -/
  | xorWithin (x y n : Nat)
  deriving DecidableEq, Repr

/-- `for i in a..b { body }` (the body only appends operations) -/
def forRangeE (a b : Nat) (f : Nat → Array EOp → Option (Array EOp)) (ops : Array EOp) : Option (Array EOp) :=
  (List.range' a (b - a)).foldlM (fun o i => f i o) ops

/-- `while cond(st) { body }` over the tuple `st` of mutable counters; `none` when the fuel runs out -/
def whileSt {σ : Type} : Nat → (σ → Option Bool) → (σ → Array EOp → Option (σ × Array EOp)) → σ → Array EOp →
    Option (σ × Array EOp)
  | 0, _, _, _, _ => none
  | fuel + 1, c, b, x, ops =>
    match c x with
    | none => none
    | some false => some (x, ops)
    | some true =>
      match b x ops with
      | none => none
      | some (x', ops') => whileSt fuel c b x' ops'

end RS.RustE
