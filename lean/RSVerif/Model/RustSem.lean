/-
  Prelude of the generated file `Gen/SrcEnvelope.lean` (see /verif/translate/rs2lean.py): the error and
  result values the translated Rust functions construct.  The translation itself is a tree of
  `if … then … else …` over `Nat` with `some v` / `none` leaves, `none` meaning that a `usize` operation
  on the evaluation path would overflow (2^64) or a `debug_assert!` would fail.
  Import-free.
-/
import RSVerif.Model.Codec

namespace RS.Rust

/-- `usize::MAX + 1` on the 64-bit targets -/
def USIZE : Nat := 18446744073709551616

/-- the `Error` values the translated functions construct -/
inductive SrcErr where
  | UnsupportedShardCount (original_count recovery_count : Nat)
  | InvalidShardSize (shard_bytes : Nat)
  deriving DecidableEq, Repr

/-- `Result<T, Error>` -/
inductive Res (α : Type) where
  | Ok (v : α)
  | Err (e : SrcErr)
  deriving DecidableEq, Repr

end RS.Rust
