/-
  Interpreter of the operation programs that `Gen/SrcCodec.lean` (translated from the current Rust source)
  returns: every `Op` is run with the model's primitive of the same name (Model/Engine.lean) on the work
  memory `mem` (positions of shards) and the `erasures` array of the decoders.
  Import-free apart from the model (linked into the `srccodec` exe).
-/
import RSVerif.Gen.SrcCodec
import RSVerif.Model.Engine

namespace RS
open RS.RustC RS.SrcC

/-- work memory + `erasures` (65536 entries) -/
structure CState (V : Type) where
  mem : Array V
  era : Array Nat

variable {V : Type} [ShardAlg V]

/-- `erasures[a..b].fill(1)` -/
def markRangeArr (era : Array Nat) (a b : Nat) : Array Nat :=
  Array.ofFn (n := era.size) fun i => if a ≤ i.val ∧ i.val < b then 1 else era[i]

/-- one operation, with the model primitive of the same name -/
def stepOp (s : Sched) (lw : Array Nat) (st : CState V) : Op → CState V
  | .zero a b => { st with mem := zeroRange st.mem a b }
  | .zeroFrom a => { st with mem := zeroRange st.mem a st.mem.size }
  | .fft p n t d => { st with mem := fft s st.mem p n t d }
  | .ifft p n t d => { st with mem := ifft s st.mem p n t d }
  | .fftSkewEnd p n t =>
    match fft_skew_end_delta p n with
    | some d => { st with mem := fft s st.mem p n t d }
    | none => st
  | .ifftSkewEnd p n t =>
    match ifft_skew_end_delta p n with
    | some d => { st with mem := ifft s st.mem p n t d }
    | none => st
  | .xorWithin x y n => { st with mem := xorWithin st.mem x y n }
  | .copyWithin a b n => { st with mem := copyWithin st.mem a b n }
  | .formalDerivative => { st with mem := formalDerivative st.mem }
  | .mark i => { st with era := st.era.setIfInBounds i 1 }
  | .markRange a b => { st with era := markRangeArr st.era a b }
  | .markFrom a => { st with era := markRangeArr st.era a st.era.size }
  | .evalPoly n => { st with era := evalPolyWith lw st.era n }
  | .mulE i => { st with mem := st.mem.setIfInBounds i (mulLog (rd st.mem i) (st.era.getD i 0)) }
  | .mulNegE i => { st with mem := st.mem.setIfInBounds i (mulLog (rd st.mem i) (65535 - st.era.getD i 0)) }
  | .fill0 i => { st with mem := st.mem.setIfInBounds i ShardAlg.zero }
  | .undoLast => st

/-- a whole program, from the all-zero `erasures` array -/
def runOps (s : Sched) (lw : Array Nat) (ops : Array Op) (mem : Array V) : CState V :=
  ops.foldl (stepOp s lw) { mem := mem, era := Array.replicate 65536 0 }

end RS
