/- Support definitions for the translation of the integer / table code of the engines
   (translate/rs2lean_utils.py): loops with an explicit state, `none` = panic or fuel exhausted. -/
import RSVerif.Model.Field

namespace RS.RustU

/-- `while cond(s) { s = body(s) }`; `none` when the body panics or the fuel runs out -/
def whileSt {σ : Type} : Nat → (σ → Bool) → (σ → Option σ) → σ → Option σ
  | 0, _, _, _ => none
  | fuel + 1, c, b, s => if c s then (b s).bind (whileSt fuel c b) else some s

/-- the iterations of `for i in (lo..hi).step_by(step)`: `cnt` of them starting at `i` -/
def forStepAux {σ : Type} (step : Nat) (f : Nat → σ → Option σ) : Nat → Nat → σ → Option σ
  | 0, _, s => some s
  | cnt + 1, i, s => (f i s).bind (forStepAux step f cnt (i + step))

/-- `for i in (lo..hi).step_by(step) { s = f(i, s) }` (`step_by(0)` panics) -/
def forStep {σ : Type} (lo hi step : Nat) (f : Nat → σ → Option σ) (s : σ) : Option σ :=
  if step = 0 then none else forStepAux step f ((hi - lo + step - 1) / step) lo s

/-- `for (x, y) in zip(a.iter_mut(), b.iter()) { *x = f(*x, *y) }`: the common prefix is updated -/
def zipUpdM (f : Nat → Nat → Option Nat) (a b : Array Nat) : Option (Array Nat) :=
  (List.range (min a.size b.size)).foldlM (fun (acc : Array Nat) i => (f (a.getD i 0) (b.getD i 0)).map (acc.set! i)) a

end RS.RustU
