/- Support definitions for the translation of the per-chunk kernels (translate/rs2lean_kernel.py):
   what Rust's `for (a, b) in zip(x.iter_mut(), y.iter_mut()) { … }` does to two lists of 64-byte blocks. -/
import RSVerif.Model.SimdBlock

namespace RS.RustK
open RS

/-- `for (a, b) in zip(x.iter_mut(), y.iter_mut()) { (a, b) = f(a, b) }`: the common prefix is updated pairwise, the
    rest of the longer list is left as it was -/
def zipUpd2 (f : Block → Block → Block × Block) : List Block → List Block → List Block × List Block
  | a :: as, b :: bs => let r := f a b; let rest := zipUpd2 f as bs; (r.1 :: rest.1, r.2 :: rest.2)
  | as, [] => (as, [])
  | [], bs => ([], bs)

/-- `for (a, b) in zip(x.iter_mut(), y.iter()) { a = f(a, b) }` -/
def zipUpd1 (f : Block → Block → Block) : List Block → List Block → List Block
  | a :: as, b :: bs => f a b :: zipUpd1 f as bs
  | as, [] => as
  | [], _ => []

end RS.RustK
