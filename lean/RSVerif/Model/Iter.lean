/-
  The result iterators `Recovery` (src/encoder_result.rs) and `RestoredOriginal`
  (src/decoder_result.rs): a cursor with an `ended` flag on top of the accessors.
  Import-free.
-/
import RSVerif.Model.State

namespace RS

structure Cursor where
  ended : Bool := false
  next : Nat := 0
  deriving DecidableEq, Repr

/-- `Recovery::next` -/
def recoveryNext (w : EncWork) (c : Cursor) : Option (Array Nat) × Cursor :=
  if c.ended then (none, c)
  else
    match w.recovery c.next with
    | some s => (some s, { c with next := c.next + 1 })
    | none => (none, { c with ended := true })

/-- the inner `while index < original_count` search of `RestoredOriginal::next`
    (`fuel` = remaining indexes) -/
def restoredSearch (w : DecWork) : Nat → Nat → Option (Nat × Array Nat)
  | 0, _ => none
  | fuel + 1, index =>
    if index < w.k then
      match w.restoredOriginal index with
      | some s => some (index, s)
      | none => restoredSearch w fuel (index + 1)
    else none

/-- `RestoredOriginal::next` -/
def restoredNext (w : DecWork) (c : Cursor) : Option (Nat × Array Nat) × Cursor :=
  if c.ended then (none, c)
  else
    match restoredSearch w (w.k - c.next) c.next with
    | some (i, s) => (some (i, s), { c with next := i + 1 })
    | none => (none, { c with ended := true })

/-- `n` calls of `next`, collecting the answers -/
def recoveryTake (w : EncWork) : Nat → Cursor → List (Option (Array Nat))
  | 0, _ => []
  | n + 1, c => let (o, c') := recoveryNext w c; o :: recoveryTake w n c'

def restoredTake (w : DecWork) : Nat → Cursor → List (Option (Nat × Array Nat))
  | 0, _ => []
  | n + 1, c => let (o, c') := restoredNext w c; o :: restoredTake w n c'

end RS
