/-
  Whole transforms, utilities and whole encoders / decoders on the crate's REAL flat working memory
  (`Flat` of Model/Flat.lean = `Shards` / `ShardsRefMut` of src/engine/shards.rs).

  Every loop of Model/EngineSeq.lean (engine_naive.rs `fft` / `ifft`; engine_nosimd.rs `fft_private` /
  `ifft_private`, copied by engine_ssse3/avx2/neon.rs) and every statement of Model/Codec.lean
  (rate_high.rs / rate_low.rs `encode`, `decode`) is repeated here on `Flat`, through the
  Option-valued accessors of Model/Flat.lean: a slice / split panic ANYWHERE makes the whole
  transform / codec `none` (`foldO`).

  `Proofs/FlatEngineSpec.lean` proves that on a well-formed memory inside the documented bounds
  nothing panics and the result, read through `Flat.absAt`, is the position-level loop nest of
  Model/EngineSeq.lean, hence (Proofs/SeqEquiv.lean) the pointwise model `fft` / `ifft` of
  Model/Engine.lean, hence `encodeHigh` / `encodeLow` / `decodeHigh` / `decodeLow` of Model/Codec.lean.

  Core Lean only; everything is executable.
-/
import RSVerif.Model.Flat
import RSVerif.Model.EngineSeq
import RSVerif.Model.Codec

namespace RS

/-- left fold of a step that can panic: the first `none` makes the whole loop `none` -/
def foldO {α κ : Type} (step : α → κ → Option α) : List κ → α → Option α
  | [], a => some a
  | k :: ks, a => (step a k).bind (foldO step ks)

namespace Flat

/-! ## Part 1: the butterfly loops -/

/-- `for i in r..r+dist { let (a, b) = data.dist2_mut(pos + i, dist); butterfly(a, b) }`
    (`bflyRun` of Model/EngineSeq.lean; the butterfly gets the arguments of `dist2_mut`) -/
def bflyRunO (bf : Flat → Nat → Nat → Option Flat) (f : Flat) (pos r dist : Nat) : Option Flat :=
  foldO (fun f i => bf f (pos + r + i) dist) (List.range dist) f

/-- Naive: one fft layer at distance `dist`: `while r < truncated_size { …; r += dist * 2 }`;
    the twiddle `skewElem _ = 0` stands for `log_m == GF_MODULUS` (xor only), as in EngineSeq -/
def naiveFftLayerO (delta trunc pos dist : Nat) (f : Flat) : Option Flat :=
  foldO (fun f r => bflyRunO (fun f p d => f.fftBfly (skewElem (r + dist + delta - 1)) p d) f pos r dist)
    (blockStarts trunc (2 * dist)) f

def naiveIfftLayerO (delta trunc pos dist : Nat) (f : Flat) : Option Flat :=
  foldO (fun f r => bflyRunO (fun f p d => f.ifftBfly (skewElem (r + dist + delta - 1)) p d) f pos r dist)
    (blockStarts trunc (2 * dist)) f

end Flat

/-- `Naive::fft(data, pos, size = 2^n, truncated_size, skew_delta)` on the flat memory:
    `dist = size / 2; while dist > 0 { …; dist /= 2 }`; every butterfly goes through `dist2_mut` -/
def flatNaiveFft (f : Flat) (pos n trunc delta : Nat) : Option Flat :=
  foldO (fun f d => Flat.naiveFftLayerO delta trunc pos d f) ((List.range n).reverse.map (2 ^ ·)) f

/-- `Naive::ifft`: `dist = 1; while dist < size { …; dist *= 2 }` -/
def flatNaiveIfft (f : Flat) (pos n trunc delta : Nat) : Option Flat :=
  foldO (fun f d => Flat.naiveIfftLayerO delta trunc pos d f) ((List.range n).map (2 ^ ·)) f

namespace Flat

/-- `fft_butterfly_two_layers(data, p, dist, log_m01, log_m23, log_m02)` as the four butterflies
    of `fftTwoLayers` (Model/EngineSeq.lean), each through `dist2_mut`.
    The Rust takes the four shards at once with `dist4_mut(p, dist)`: that is `fftTwoLayers4O` below;
    `Proofs/FlatEngineSpec.lean` (`fftTwoLayers4O_eq`) proves the two equal. -/
def fftTwoLayersO (c01 c23 c02 : Sym) (f : Flat) (p dist : Nat) : Option Flat :=
  -- first layer: (s0, s2) and (s1, s3) with m02
  (f.fftBfly c02 p (2 * dist)).bind fun f =>
  (f.fftBfly c02 (p + dist) (2 * dist)).bind fun f =>
  -- second layer: (s0, s1) with m01, (s2, s3) with m23
  (f.fftBfly c01 p dist).bind fun f =>
  f.fftBfly c23 (p + 2 * dist) dist

def ifftTwoLayersO (c01 c23 c02 : Sym) (f : Flat) (p dist : Nat) : Option Flat :=
  (f.ifftBfly c01 p dist).bind fun f =>
  (f.ifftBfly c23 (p + 2 * dist) dist).bind fun f =>
  (f.ifftBfly c02 p (2 * dist)).bind fun f =>
  f.ifftBfly c02 (p + dist) (2 * dist)

/-- `fft_butterfly_two_layers` exactly as written: ONE call of `dist4_mut(p, dist)`, then
    `fft_butterfly_partial(s0, s2, m02)`, `(s1, s3, m02)`, `(s0, s1, m01)`, `(s2, s3, m23)` on the
    four views (`fft_butterfly_partial(x, y, m)` = `mul_add(x, y, m); xor(y, x)`; the
    `log_m == GF_MODULUS` branches `xor(y, x)` are the twiddle `0`) -/
def fftTwoLayers4O (c01 c23 c02 : Sym) (f : Flat) (p dist : Nat) : Option Flat :=
  (f.dist4 p dist).bind fun v =>
    let s0 := v.1; let s1 := v.2.1; let s2 := v.2.2.1; let s3 := v.2.2.2
    let s0 := bXor s0 (bMul (gmul c02) s2)
    let s2 := bXor s2 s0
    let s1 := bXor s1 (bMul (gmul c02) s3)
    let s3 := bXor s3 s1
    let s0 := bXor s0 (bMul (gmul c01) s1)
    let s1 := bXor s1 s0
    let s2 := bXor s2 (bMul (gmul c23) s3)
    let s3 := bXor s3 s2
    some (f.putDist4 p dist s0 s1 s2 s3)

/-- `ifft_butterfly_two_layers` exactly as written (`ifft_butterfly_partial(x, y, m)` =
    `xor(y, x); mul_add(x, y, m)`) -/
def ifftTwoLayers4O (c01 c23 c02 : Sym) (f : Flat) (p dist : Nat) : Option Flat :=
  (f.dist4 p dist).bind fun v =>
    let s0 := v.1; let s1 := v.2.1; let s2 := v.2.2.1; let s3 := v.2.2.2
    let s1 := bXor s1 s0
    let s0 := bXor s0 (bMul (gmul c01) s1)
    let s3 := bXor s3 s2
    let s2 := bXor s2 (bMul (gmul c23) s3)
    let s2 := bXor s2 s0
    let s0 := bXor s0 (bMul (gmul c02) s2)
    let s3 := bXor s3 s1
    let s1 := bXor s1 (bMul (gmul c02) s3)
    some (f.putDist4 p dist s0 s1 s2 s3)

/-- one pass of the `while dist != 0` loop of `fft_private` at quarter distance `dist`, generic in
    the four-point butterfly -/
def twoPassO (tl : Sym → Sym → Sym → Flat → Nat → Nat → Option Flat)
    (delta trunc pos dist : Nat) (f : Flat) : Option Flat :=
  foldO (fun f r =>
      let base := r + dist + delta - 1
      foldO (fun f i => tl (skewElem base) (skewElem (base + 2 * dist)) (skewElem (base + dist))
        f (pos + r + i) dist) (List.range dist) f)
    (blockStarts trunc (4 * dist)) f

/-- `fft_private`, generic in the four-point butterfly -/
def twoFftO (tl : Sym → Sym → Sym → Flat → Nat → Nat → Option Flat)
    (f : Flat) (pos n trunc delta : Nat) : Option Flat :=
  let passes := (List.range (n / 2)).map fun j => 2 ^ (n - 2 - 2 * j)
  (foldO (fun f d => twoPassO tl delta trunc pos d f) passes f).bind fun f =>
  if n % 2 = 1 then
    -- FINAL ODD LAYER: `let (x, y) = data.dist2_mut(pos + r, 1)`
    foldO (fun f r => f.fftBfly (skewElem (r + delta)) (pos + r) 1) (blockStarts trunc 2) f
  else some f

/-- the FINAL ODD LAYER of `ifft_private` as the butterfly run of `twoIfftSeq`, through `dist2_mut` -/
def ifftLastO (delta pos dist : Nat) (f : Flat) : Option Flat :=
  bflyRunO (fun f p d => f.ifftBfly (skewElem (dist + delta - 1)) p d) f pos 0 dist

/-- `ifft_private`, generic in the four-point butterfly and in the final odd layer -/
def twoIfftO (tl : Sym → Sym → Sym → Flat → Nat → Nat → Option Flat)
    (last : Nat → Nat → Nat → Flat → Option Flat)
    (f : Flat) (pos n trunc delta : Nat) : Option Flat :=
  let passes := (List.range (n / 2)).map fun j => 2 ^ (2 * j)
  (foldO (fun f d => twoPassO tl delta trunc pos d f) passes f).bind fun f =>
  if n % 2 = 1 then last delta pos (2 ^ (n - 1)) f else some f

end Flat

/-- `NoSimd::fft_private` (= Ssse3 / Avx2 / Neon `fft_private`) with `size = 2^n`, every radix-4
    group as the four `dist2_mut` butterflies of `twoFftSeq` -/
def flatTwoFft (f : Flat) (pos n trunc delta : Nat) : Option Flat :=
  Flat.twoFftO Flat.fftTwoLayersO f pos n trunc delta

/-- `NoSimd::ifft_private` likewise, the final odd layer as a run of `dist2_mut` butterflies -/
def flatTwoIfft (f : Flat) (pos n trunc delta : Nat) : Option Flat :=
  Flat.twoIfftO Flat.ifftTwoLayersO Flat.ifftLastO f pos n trunc delta

/-- `fft_private` with the view function the Rust uses: every group through ONE `dist4_mut` -/
def flatTwoFft4 (f : Flat) (pos n trunc delta : Nat) : Option Flat :=
  Flat.twoFftO Flat.fftTwoLayers4O f pos n trunc delta

namespace Flat

/-! ### the final odd layer of `ifft_private` as written -/

/-- the two halves of `split_at_mut` put together again (the halves are views of one allocation;
    writing through them is writing to `left.data ++ right.data`) -/
def join (l r : Flat) : Flat := ⟨l.count + r.count, l.len64, l.data ++ r.data⟩

/-- the `else` branch of the FINAL ODD LAYER:
    `let (mut a, mut b) = data.split_at_mut(pos + dist);
     for i in 0..dist { ifft_butterfly_partial(&mut a[pos + i], &mut b[i], log_m) }`
    (`IndexMut` on the two halves; `c = exp(log_m)`) -/
def ifftLastSplitO (c : Sym) (pos dist : Nat) (f : Flat) : Option Flat :=
  (f.splitAt (pos + dist)).bind fun ab =>
  (foldO (fun (ab : Flat × Flat) i =>
      (ab.1.shard (pos + i)).bind fun x =>
      (ab.2.shard i).bind fun y =>
        let y := bXor y x
        let x := bXor x (bMul (gmul c) y)
        some (ab.1.setShard (pos + i) x, ab.2.setShard i y))
    (List.range dist) ab).bind fun ab =>
  some (join ab.1 ab.2)

/-- FINAL ODD LAYER as written: `log_m == GF_MODULUS` (twiddle `0`) is
    `xor_within(data, pos + dist, pos, dist)`, otherwise the split loop -/
def ifftLastRustO (delta pos dist : Nat) (f : Flat) : Option Flat :=
  let c := skewElem (dist + delta - 1)
  if c = 0 then f.xorWithin (pos + dist) pos dist else ifftLastSplitO c pos dist f

end Flat

/-- `ifft_private` with the view functions the Rust uses: `dist4_mut` per group, and the final odd
    layer through `xor_within` / `split_at_mut` + `IndexMut` -/
def flatTwoIfft4 (f : Flat) (pos n trunc delta : Nat) : Option Flat :=
  Flat.twoIfftO Flat.ifftTwoLayers4O Flat.ifftLastRustO f pos n trunc delta

/-! ## Part 2: utilities and codecs -/

/-- `Engine::fft(data, pos, size, truncated_size, skew_delta)` of the engine selected by `s`
    (`size` a power of two; the loops only see `log2 size`): `Naive::fft`, resp. `fft_private` of
    NoSimd / Ssse3 / Avx2 / Neon with the view functions they really use (`dist4_mut` per group,
    `dist2_mut` in the final odd layer) -/
def flatFft (s : Sched) (f : Flat) (pos size trunc delta : Nat) : Option Flat :=
  match s with
  | .naive => flatNaiveFft f pos (Nat.log2 size) trunc delta
  | .twoLayer => flatTwoFft4 f pos (Nat.log2 size) trunc delta

/-- `Engine::ifft` likewise (`ifft_private`: `dist4_mut` per group; final odd layer through
    `xor_within` resp. `split_at_mut` + `IndexMut`) -/
def flatIfft (s : Sched) (f : Flat) (pos size trunc delta : Nat) : Option Flat :=
  match s with
  | .naive => flatNaiveIfft f pos (Nat.log2 size) trunc delta
  | .twoLayer => flatTwoIfft4 f pos (Nat.log2 size) trunc delta

/-- `utils::formal_derivative(data)`:
    `for i in 1..data.len() { let width = 1 << i.trailing_zeros(); xor_within(data, i - width, i, width) }`.
    `xor_within` goes through `flat2_mut(i - width, i, width)`, which needs `i + width ≤ len`: that
    holds for every `i < len` exactly because `len` (= `work_count` of the decoder) is a power of two
    -- this is why the Rust never panics here. -/
def flatFormalDerivative (f : Flat) : Option Flat :=
  foldO (fun f k => let i := k + 1; let w := 2 ^ tz i; f.xorWithin (i - w) i w)
    (List.range (f.count - 1)) f

/-- one FULL CHUNK step of `HighRateEncoder::encode`:
    `ifft_skew_end(engine, work, chunk_start, chunk_size, chunk_size); xor_within(work, 0, chunk_start, chunk_size)` -/
def flatHighFullChunk (s : Sched) (chunk : Nat) (f : Flat) (c : Nat) : Option Flat :=
  let start := c * chunk
  (flatIfft s f start chunk chunk (start + chunk)).bind fun f =>
  f.xorWithin 0 start chunk

/-- FINAL PARTIAL CHUNK of `HighRateEncoder::encode` (`chunk_start = (k / chunk) * chunk` after the
    FULL CHUNKS loop): `work.zero(chunk_start + last_count..)`, `ifft_skew_end`, `xor_within` -/
def flatHighLastChunk (s : Sched) (chunk k : Nat) (f : Flat) : Option Flat :=
  let start := k / chunk * chunk
  let last := k % chunk
  if last > 0 then
    (f.zeroFrom (start + last)).bind fun f =>
    (flatIfft s f start chunk last (start + chunk)).bind fun f =>
    f.xorWithin 0 start chunk
  else some f

/-- `if original_count > chunk_size { FULL CHUNKS; FINAL PARTIAL CHUNK }` -/
def flatHighOtherChunks (s : Sched) (chunk k : Nat) (f : Flat) : Option Flat :=
  if k > chunk then
    (foldO (fun f i => flatHighFullChunk s chunk f (i + 1)) (List.range (k / chunk - 1)) f).bind
      (flatHighLastChunk s chunk k)
  else some f

/-- `HighRateEncoder::encode` after `encode_begin`, statement by statement (`encodeHigh`) -/
def flatEncodeHigh (s : Sched) (f : Flat) (k r : Nat) : Option Flat :=
  let chunk := npow2 r
  let first := min k chunk
  -- FIRST CHUNK: `work.zero(first_count..chunk_size); ifft_skew_end(engine, work, 0, chunk_size, first_count)`
  (f.zero first chunk).bind fun f =>
  (flatIfft s f 0 chunk first chunk).bind fun f =>
  (flatHighOtherChunks s chunk k f).bind fun f =>
  -- FFT: `engine.fft(work, 0, chunk_size, recovery_count, 0)`
  flatFft s f 0 chunk r 0

/-- `LowRateEncoder::encode` after `encode_begin`, statement by statement (`encodeLow`) -/
def flatEncodeLow (s : Sched) (f : Flat) (k r : Nat) : Option Flat :=
  let chunk := npow2 k
  -- ZEROPAD ORIGINAL, IFFT - ORIGINAL
  (f.zero k chunk).bind fun f =>
  (flatIfft s f 0 chunk k 0).bind fun f =>
  -- COPY IFFT RESULT TO OTHER CHUNKS: `work.copy_within(0, chunk_start, chunk_size)`
  let copies := (r + chunk - 1) / chunk - 1
  (foldO (fun f i => f.copyWithin 0 ((i + 1) * chunk) chunk) (List.range copies) f).bind fun f =>
  -- FFT - FULL CHUNKS: `fft_skew_end(engine, work, chunk_start, chunk_size, chunk_size)`
  let q := r / chunk
  (foldO (fun f c => flatFft s f (c * chunk) chunk chunk (c * chunk + chunk)) (List.range q) f).bind fun f =>
  -- FFT - FINAL PARTIAL CHUNK
  let last := r % chunk
  if last > 0 then flatFft s f (q * chunk) chunk last (q * chunk + chunk) else some f

namespace Flat

/-- `self.engine.mul(&mut work[i], log_m)`: `IndexMut`, then the engine's `mul` on the view
    (`g^log_m` as the field element `gexp log_m`, as `mulLog`) -/
def mulShard (f : Flat) (i m : Nat) : Option Flat :=
  (f.shard i).bind fun s => some (f.setShard i (bMul (gmul (gexp m)) s))

/-- `work[i].fill([0; 64])` -/
def fillShard (f : Flat) (i : Nat) : Option Flat :=
  (f.shard i).bind fun s => some (f.setShard i (Array.replicate s.size zeroBlock))

/-- `for i in lo..lo+cnt { if received[i] { engine.mul(&mut work[i], erasures[i]) } else { work[i].fill([0; 64]) } }` -/
def prepareRange (recv : Nat → Bool) (loc : Array Nat) (lo cnt : Nat) (f : Flat) : Option Flat :=
  foldO (fun f j => let i := lo + j
    if recv i then f.mulShard i (loc.getD i 0) else f.fillShard i) (List.range cnt) f

/-- `for i in lo..lo+cnt { if !received[i] { engine.mul(&mut work[i], GF_MODULUS - erasures[i]) } }` -/
def revealRange (recv : Nat → Bool) (loc : Array Nat) (lo cnt : Nat) (f : Flat) : Option Flat :=
  foldO (fun f j => let i := lo + j
    if recv i = false then f.mulShard i (65535 - loc.getD i 0) else some f) (List.range cnt) f

end Flat

/-- `HighRateDecoder::decode` when `decode_begin` returned `Some`, statement by statement
    (`decodeHigh`; the output of `E::eval_poly` is computed from the table `lw` as in Model/Codec.lean) -/
def flatDecodeHigh (s : Sched) (lw : Array Nat) (f : Flat) (k r : Nat) (recv : Nat → Bool) : Option Flat :=
  let chunk := npow2 r
  let oend := chunk + k
  let work_count := f.count
  let loc := evalPolyWith lw (erasuresHigh k r recv) oend
  -- MULTIPLY SHARDS
  (Flat.prepareRange recv loc 0 r f).bind fun f =>
  (f.zero r chunk).bind fun f =>
  (Flat.prepareRange recv loc chunk k f).bind fun f =>
  (f.zeroFrom oend).bind fun f =>
  -- IFFT / FORMAL DERIVATIVE / FFT
  (flatIfft s f 0 work_count oend 0).bind fun f =>
  (flatFormalDerivative f).bind fun f =>
  (flatFft s f 0 work_count oend 0).bind fun f =>
  -- REVEAL ERASURES
  Flat.revealRange recv loc chunk k f

/-- `LowRateDecoder::decode` when `decode_begin` returned `Some` (`decodeLow`) -/
def flatDecodeLow (s : Sched) (lw : Array Nat) (f : Flat) (k r : Nat) (recv : Nat → Bool) : Option Flat :=
  let chunk := npow2 k
  let rend := chunk + r
  let work_count := f.count
  let loc := evalPolyWith lw (erasuresLow k r recv) 65536
  (Flat.prepareRange recv loc 0 k f).bind fun f =>
  (f.zero k chunk).bind fun f =>
  (Flat.prepareRange recv loc chunk r f).bind fun f =>
  (f.zeroFrom rend).bind fun f =>
  (flatIfft s f 0 work_count rend 0).bind fun f =>
  (flatFormalDerivative f).bind fun f =>
  (flatFft s f 0 work_count rend 0).bind fun f =>
  Flat.revealRange recv loc 0 k f

end RS
