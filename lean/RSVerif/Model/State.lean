/-
  The codec objects as state machines: `EncoderWork` / `DecoderWork` bookkeeping, the
  dedicated-rate and default-rate encoders and decoders, `ReedSolomonEncoder/Decoder`,
  result objects (accessors, iterators, implicit reset on drop) and the one-shot functions.

  The check order of every call is the one in the source (after the three `fix:` commits,
  see DESIGN.md §7).  Places where the Rust code would panic are explicit `Outcome.panic`
  results, so that "no panic" is a theorem about reachable states and not a modelling choice.

  Import-free (linked into `rsmodel`).
-/
import RSVerif.Model.Codec

namespace RS

/-! ### errors and outcomes -/

inductive Err where
  | differentShardSize (shardBytes got : Nat)
  | duplicateOriginal (index : Nat)
  | duplicateRecovery (index : Nat)
  | invalidOriginalIndex (originalCount index : Nat)
  | invalidRecoveryIndex (recoveryCount index : Nat)
  | invalidShardSize (shardBytes : Nat)
  | notEnoughShards (originalCount originalReceived recoveryReceived : Nat)
  | tooFewOriginal (originalCount originalReceived : Nat)
  | tooManyOriginal (originalCount : Nat)
  | unsupportedShardCount (originalCount recoveryCount : Nat)
  deriving DecidableEq, Repr

inductive Outcome (α : Type) where
  | ok (a : α)
  | err (e : Err)
  | panic (why : String)
  deriving Repr

namespace Outcome
@[inline] def bind {α β : Type} (x : Outcome α) (f : α → Outcome β) : Outcome β :=
  match x with
  | .ok a => f a
  | .err e => .err e
  | .panic w => .panic w
end Outcome

/-! ### byte layout of a shard (src/algorithm.md, `Shards::insert`, `undo_last_chunk_encoding`) -/

/-- index of the low byte of lane `l` in a shard of `sb` bytes -/
def loIdx (l : Nat) : Nat := 64 * (l / 32) + l % 32

/-- index of the high byte of lane `l`: 32 further in a full block, `t/2` further in a final
    block of `t` bytes -/
def hiIdx (sb l : Nat) : Nat :=
  if l / 32 < sb / 64 then 64 * (l / 32) + 32 + l % 32
  else 64 * (l / 32) + (sb % 64) / 2 + l % 32

/-- bytes → lanes -/
def layout (sb : Nat) (b : Array Nat) : Vector Sym (sb / 2) :=
  Vector.ofFn fun l => BitVec.ofNat 16 (b.getD (loIdx l.val) 0 % 256 + 256 * (b.getD (hiIdx sb l.val) 0 % 256))

/-- lane and half (false = low byte) that byte `i` of a shard of `sb` bytes holds -/
def byteLane (sb i : Nat) : Nat × Bool :=
  let q := i / 64
  let o := i % 64
  let half := if q < sb / 64 then 32 else (sb % 64) / 2
  if o < half then (32 * q + o, false) else (32 * q + (o - half), true)

/-- lanes → bytes -/
def unlayout {L : Nat} (sb : Nat) (v : Vector Sym L) : Array Nat :=
  Array.ofFn (n := sb) fun i =>
    let (l, hi) := byteLane sb i.val
    let s := (v.toArray.getD l 0#16).toNat
    if hi then s / 256 else s % 256

/-! ### configuration predicates -/

inductive Rate where
  | high
  | low
  deriving DecidableEq, Repr

/-- codec flavours: dedicated high, dedicated low, default rate -/
inductive Kind where
  | high
  | low
  | default
  deriving DecidableEq, Repr

def supportsHigh (k r : Nat) : Bool :=
  decide (k > 0) && decide (r > 0) && decide (k < 65536) && decide (r < 65536)
    && decide (npow2 r + k ≤ 65536)

def supportsLow (k r : Nat) : Bool :=
  decide (k > 0) && decide (r > 0) && decide (k < 65536) && decide (r < 65536)
    && decide (npow2 k + r ≤ 65536)

/-- `rate_default.rs use_high_rate` -/
def useHighRate (k r : Nat) : Except Err Bool :=
  if k > 65536 ∨ r > 65536 then .error (.unsupportedShardCount k r)
  else
    let kp := npow2 k
    let rp := npow2 r
    if k = 0 ∨ r = 0 ∨ min kp rp + max k r > 65536 then .error (.unsupportedShardCount k r)
    else if kp < rp then .ok false
    else if kp > rp then .ok true
    else .ok (decide (k ≤ r))

def supportsDefault (k r : Nat) : Bool :=
  match useHighRate k r with
  | .ok _ => true
  | .error _ => false

def supports (kind : Kind) (k r : Nat) : Bool :=
  match kind with
  | .high => supportsHigh k r
  | .low => supportsLow k r
  | .default => supportsDefault k r

def supportsRate (rate : Rate) (k r : Nat) : Bool :=
  match rate with
  | .high => supportsHigh k r
  | .low => supportsLow k r

def badShardSize (sb : Nat) : Bool := sb = 0 || sb % 2 = 1

/-- `Rate::validate` -/
def validate (kind : Kind) (k r sb : Nat) : Except Err Unit :=
  if !supports kind k r then .error (.unsupportedShardCount k r)
  else if badShardSize sb then .error (.invalidShardSize sb)
  else .ok ()

def validateRate (rate : Rate) (k r sb : Nat) : Except Err Unit :=
  if !supportsRate rate k r then .error (.unsupportedShardCount k r)
  else if badShardSize sb then .error (.invalidShardSize sb)
  else .ok ()

/-! ### working space -/

/-- how uninitialised / stale working memory looks to a round: an arbitrary function.
    Every theorem quantifies over it; `rsmodel` runs with a non-zero pattern. -/
abbrev Stale := (L : Nat) → Nat → Vector Sym L

/-- `EncoderWork` (+ `Shards`): configuration, received counter, memory;
    `heldBlocks` is the high-water mark of 64-byte blocks ever requested (C17). -/
structure EncWork where
  k : Nat := 0
  r : Nat := 0
  sb : Nat := 0
  recv : Nat := 0
  L : Nat := 0
  mem : Array (Vector Sym L) := #[]
  heldBlocks : Nat := 0
  /-- number of growing (re)allocations of the shard memory so far -/
  allocs : Nat := 0

def blocksNeeded (workCount sb : Nat) : Nat := workCount * ((sb + 63) / 64)

/-- `EncoderWork::reset` (the caller validated; an odd size trips the `assert!`) -/
def EncWork.reset (stale : Stale) (w : EncWork) (k r sb workCount : Nat) : Outcome EncWork :=
  if sb % 2 ≠ 0 then .panic "assertion failed: shard_bytes % 2 == 0"
  else
    let need := blocksNeeded workCount sb
    .ok { k := k, r := r, sb := sb, recv := 0, L := sb / 2,
          mem := Array.ofFn (n := workCount) fun p => stale (sb / 2) p.val,
          heldBlocks := max w.heldBlocks need,
          allocs := if need > w.heldBlocks then w.allocs + 1 else w.allocs }

/-- `EncoderWork::add_original_shard` -/
def EncWork.add (w : EncWork) (shard : Array Nat) : Outcome EncWork :=
  if w.recv = w.k then .err (.tooManyOriginal w.k)
  else if shard.size ≠ w.sb then .err (.differentShardSize w.sb shard.size)
  else
    if h : w.sb / 2 = w.L then
      if w.recv < w.mem.size then
        .ok { w with mem := w.mem.setIfInBounds w.recv (h ▸ layout w.sb shard), recv := w.recv + 1 }
      else .panic "shard index out of range"
    else .panic "lane count invariant broken"

/-- `DecoderWork` (+ `Shards` + `FixedBitSet`) -/
structure DecWork where
  k : Nat := 0
  r : Nat := 0
  sb : Nat := 0
  obase : Nat := 0
  rbase : Nat := 0
  orecv : Nat := 0
  rrecv : Nat := 0
  received : Array Bool := #[]
  L : Nat := 0
  mem : Array (Vector Sym L) := #[]
  heldBlocks : Nat := 0
  allocs : Nat := 0
  /-- growing reallocations of the bitmap -/
  bitAllocs : Nat := 0

def DecWork.recvAt (w : DecWork) (pos : Nat) : Bool := w.received.getD pos false

/-- `DecoderWork::reset` -/
def DecWork.reset (stale : Stale) (w : DecWork) (k r sb obase rbase workCount : Nat) : Outcome DecWork :=
  if sb % 2 ≠ 0 then .panic "assertion failed: shard_bytes % 2 == 0"
  else
    let need := blocksNeeded workCount sb
    let maxPos := max (obase + k) (rbase + r)
    let bitLen := max w.received.size maxPos
    .ok { k := k, r := r, sb := sb, obase := obase, rbase := rbase, orecv := 0, rrecv := 0,
          received := Array.replicate bitLen false,
          L := sb / 2,
          mem := Array.ofFn (n := workCount) fun p => stale (sb / 2) p.val,
          heldBlocks := max w.heldBlocks need,
          allocs := if need > w.heldBlocks then w.allocs + 1 else w.allocs,
          bitAllocs := if maxPos > w.received.size then w.bitAllocs + 1 else w.bitAllocs }

/-- `DecoderWork::reset_received` -/
def DecWork.resetReceived (w : DecWork) : DecWork :=
  { w with orecv := 0, rrecv := 0, received := Array.replicate w.received.size false }

private def DecWork.insert (w : DecWork) (pos : Nat) (shard : Array Nat) : Outcome DecWork :=
  if h : w.sb / 2 = w.L then
    if pos < w.mem.size then
      .ok { w with mem := w.mem.setIfInBounds pos (h ▸ layout w.sb shard),
                   received := w.received.setIfInBounds pos true }
    else .panic "shard index out of range"
  else .panic "lane count invariant broken"

/-- `DecoderWork::add_original_shard` (index checked before the position is formed) -/
def DecWork.addOriginal (w : DecWork) (index : Nat) (shard : Array Nat) : Outcome DecWork :=
  if index ≥ w.k then .err (.invalidOriginalIndex w.k index)
  else if w.recvAt (w.obase + index) then .err (.duplicateOriginal index)
  else if shard.size ≠ w.sb then .err (.differentShardSize w.sb shard.size)
  else (w.insert (w.obase + index) shard).bind fun w => .ok { w with orecv := w.orecv + 1 }

/-- `DecoderWork::add_recovery_shard` -/
def DecWork.addRecovery (w : DecWork) (index : Nat) (shard : Array Nat) : Outcome DecWork :=
  if index ≥ w.r then .err (.invalidRecoveryIndex w.r index)
  else if w.recvAt (w.rbase + index) then .err (.duplicateRecovery index)
  else if shard.size ≠ w.sb then .err (.differentShardSize w.sb shard.size)
  else (w.insert (w.rbase + index) shard).bind fun w => .ok { w with rrecv := w.rrecv + 1 }

/-- `DecoderWork::restored_original` -/
def DecWork.restoredOriginal (w : DecWork) (index : Nat) : Option (Array Nat) :=
  if index < w.k ∧ w.recvAt (w.obase + index) = false then
    some (unlayout w.sb (w.mem.getD (w.obase + index) (Vector.replicate w.L 0#16)))
  else none

/-- `EncoderWork::recovery` -/
def EncWork.recovery (w : EncWork) (index : Nat) : Option (Array Nat) :=
  if index < w.r then some (unlayout w.sb (w.mem.getD index (Vector.replicate w.L 0#16)))
  else none

/-! ### encoders -/

/-- `Inner{En,De}coder`: `none` is the transient state of `reset` -/
inductive Inner (W : Type) where
  | some (rate : Rate) (w : W)
  | none

/-- an encoder object of any flavour; `sched` stands for its engine -/
structure Encoder where
  kind : Kind
  sched : Sched
  inner : Inner EncWork

def encWorkCount (rate : Rate) (k r : Nat) : Nat :=
  match rate with
  | .high => highEncWorkCount k r
  | .low => lowEncWorkCount k r

/-- `{High,Low}RateEncoder::reset_work` -/
def encResetWork (stale : Stale) (rate : Rate) (w : EncWork) (k r sb : Nat) : Outcome EncWork :=
  match validateRate rate k r sb with
  | .error e => .err e
  | .ok () => w.reset stale k r sb (encWorkCount rate k r)

/-- rate an object of flavour `kind` uses for `(k, r)` (`none`: the default rule rejects) -/
def chooseRate (kind : Kind) (k r : Nat) : Except Err Rate :=
  match kind with
  | .high => .ok .high
  | .low => .ok .low
  | .default =>
    match useHighRate k r with
    | .error e => .error e
    | .ok true => .ok .high
    | .ok false => .ok .low

/-- `RateEncoder::new(k, r, sb, engine, work)` -/
def Encoder.new (stale : Stale) (kind : Kind) (sched : Sched) (k r sb : Nat) (work : Option EncWork) :
    Outcome Encoder :=
  match chooseRate kind k r with
  | .error e => .err e
  | .ok rate =>
    (encResetWork stale rate (work.getD {}) k r sb).bind fun w =>
      .ok { kind := kind, sched := sched, inner := .some rate w }

/-- `RateEncoder::reset`.  Dedicated flavours: `reset_work` (validate, then mutate).
    Default flavour (after fix D1): rule, then shard-size validation, and only then the inner
    codec is taken out; a failure of the inner call would leave `none` behind. -/
def Encoder.reset (stale : Stale) (e : Encoder) (k r sb : Nat) : Outcome Unit × Encoder :=
  match e.inner with
  | .none => (.panic "entered unreachable code", e)
  | .some cur w =>
    match e.kind with
    | .default =>
      match chooseRate .default k r with
      | .error er => (.err er, e)
      | .ok rate =>
        if badShardSize sb then (.err (.invalidShardSize sb), e)
        else
          -- same rate: `reset`; other rate: `into_parts` + `new(Some(work))`: both are reset_work
          let _ := cur
          match encResetWork stale rate w k r sb with
          | .ok w' => (.ok (), { e with inner := .some rate w' })
          | .err er => (.err er, { e with inner := .none })
          | .panic why => (.panic why, { e with inner := .none })
    | _ =>
      match encResetWork stale cur w k r sb with
      | .ok w' => (.ok (), { e with inner := .some cur w' })
      | .err er => (.err er, e)
      | .panic why => (.panic why, e)

def Encoder.add (e : Encoder) (shard : Array Nat) : Outcome Unit × Encoder :=
  match e.inner with
  | .none => (.panic "entered unreachable code", e)
  | .some rate w =>
    match w.add shard with
    | .ok w' => (.ok (), { e with inner := .some rate w' })
    | .err er => (.err er, e)
    | .panic why => (.panic why, e)

/-- run the transform of `rate` on the work memory -/
def encodeMem {L : Nat} (rate : Rate) (s : Sched) (k r : Nat) (mem : Array (Vector Sym L)) :
    Array (Vector Sym L) :=
  match rate with
  | .high => encodeHigh s k r mem
  | .low => encodeLow s k r mem

/-- what the `EncoderResult` exposes: the list `recovery(0), …, recovery(r-1)` -/
def EncWork.recoveryList (w : EncWork) : List (Array Nat) :=
  (List.range w.r).filterMap fun i => w.recovery i

/-- `RateEncoder::encode` followed by reading all recovery shards and dropping the result
    (`reset_received`).  Returns the recovery shards. -/
def Encoder.encode (e : Encoder) : Outcome (List (Array Nat)) × Encoder :=
  match e.inner with
  | .none => (.panic "entered unreachable code", e)
  | .some rate w =>
    if w.recv = w.k then
      let w1 : EncWork := { w with mem := encodeMem rate e.sched w.k w.r w.mem }
      let out := w1.recoveryList
      (.ok out, { e with inner := .some rate { w1 with recv := 0 } })
    else (.err (.tooFewOriginal w.k w.recv), e)

/-- `RateEncoder::into_parts` -/
def Encoder.intoParts (e : Encoder) : Outcome EncWork :=
  match e.inner with
  | .none => .panic "entered unreachable code"
  | .some _ w => .ok w

/-! ### decoders -/

structure Decoder where
  kind : Kind
  sched : Sched
  inner : Inner DecWork

def decWorkCount (rate : Rate) (k r : Nat) : Nat :=
  match rate with
  | .high => highDecWorkCount k r
  | .low => lowDecWorkCount k r

def decResetWork (stale : Stale) (rate : Rate) (w : DecWork) (k r sb : Nat) : Outcome DecWork :=
  match validateRate rate k r sb with
  | .error e => .err e
  | .ok () =>
    match rate with
    | .high => w.reset stale k r sb (npow2 r) 0 (decWorkCount .high k r)
    | .low => w.reset stale k r sb 0 (npow2 k) (decWorkCount .low k r)

def Decoder.new (stale : Stale) (kind : Kind) (sched : Sched) (k r sb : Nat) (work : Option DecWork) :
    Outcome Decoder :=
  match chooseRate kind k r with
  | .error e => .err e
  | .ok rate =>
    (decResetWork stale rate (work.getD {}) k r sb).bind fun w =>
      .ok { kind := kind, sched := sched, inner := .some rate w }

def Decoder.reset (stale : Stale) (d : Decoder) (k r sb : Nat) : Outcome Unit × Decoder :=
  match d.inner with
  | .none => (.panic "entered unreachable code", d)
  | .some cur w =>
    match d.kind with
    | .default =>
      match chooseRate .default k r with
      | .error er => (.err er, d)
      | .ok rate =>
        if badShardSize sb then (.err (.invalidShardSize sb), d)
        else
          let _ := cur
          match decResetWork stale rate w k r sb with
          | .ok w' => (.ok (), { d with inner := .some rate w' })
          | .err er => (.err er, { d with inner := .none })
          | .panic why => (.panic why, { d with inner := .none })
    | _ =>
      match decResetWork stale cur w k r sb with
      | .ok w' => (.ok (), { d with inner := .some cur w' })
      | .err er => (.err er, d)
      | .panic why => (.panic why, d)

def Decoder.addOriginal (d : Decoder) (index : Nat) (shard : Array Nat) : Outcome Unit × Decoder :=
  match d.inner with
  | .none => (.panic "entered unreachable code", d)
  | .some rate w =>
    match w.addOriginal index shard with
    | .ok w' => (.ok (), { d with inner := .some rate w' })
    | .err er => (.err er, d)
    | .panic why => (.panic why, d)

def Decoder.addRecovery (d : Decoder) (index : Nat) (shard : Array Nat) : Outcome Unit × Decoder :=
  match d.inner with
  | .none => (.panic "entered unreachable code", d)
  | .some rate w =>
    match w.addRecovery index shard with
    | .ok w' => (.ok (), { d with inner := .some rate w' })
    | .err er => (.err er, d)
    | .panic why => (.panic why, d)

def decodeMem {L : Nat} (rate : Rate) (s : Sched) (lw : Array Nat) (k r : Nat) (recv : Nat → Bool)
    (mem : Array (Vector Sym L)) : Array (Vector Sym L) :=
  match rate with
  | .high => decodeHigh s lw k r recv mem
  | .low => decodeLow s lw k r recv mem

/-- what the `DecoderResult` iterator yields: ascending `(index, shard)` of restored originals -/
def DecWork.restoredList (w : DecWork) : List (Nat × Array Nat) :=
  (List.range w.k).filterMap fun i => (w.restoredOriginal i).map fun s => (i, s)

/-- `RateDecoder::decode`, read everything, drop the result. -/
def Decoder.decode (lw : Array Nat) (d : Decoder) : Outcome (List (Nat × Array Nat)) × Decoder :=
  match d.inner with
  | .none => (.panic "entered unreachable code", d)
  | .some rate w =>
    if w.orecv + w.rrecv < w.k then (.err (.notEnoughShards w.k w.orecv w.rrecv), d)
    else if w.orecv = w.k then
      let out := w.restoredList
      (.ok out, { d with inner := .some rate w.resetReceived })
    else
      let w1 : DecWork := { w with mem := decodeMem rate d.sched lw w.k w.r w.recvAt w.mem }
      let out := w1.restoredList
      (.ok out, { d with inner := .some rate w1.resetReceived })

def Decoder.intoParts (d : Decoder) : Outcome DecWork :=
  match d.inner with
  | .none => .panic "entered unreachable code"
  | .some _ w => .ok w

/-! ### one-shot functions (`src/lib.rs`) -/

/-- lift a step result into `Outcome` keeping the new object -/
def stepE {σ α : Type} (x : Outcome α × σ) : Outcome (α × σ) :=
  match x.1 with
  | .ok a => .ok (a, x.2)
  | .err e => .err e
  | .panic w => .panic w

/-- `reed_solomon_simd::encode` -/
def oneShotEncode (stale : Stale) (k r : Nat) (original : List (Array Nat)) :
    Outcome (List (Array Nat)) :=
  if !supportsDefault k r then .err (.unsupportedShardCount k r)
  else
    match original with
    | [] => .err (.tooFewOriginal k 0)
    | first :: rest =>
      (Encoder.new stale .default .twoLayer k r first.size none).bind fun e =>
        let rec addAll (e : Encoder) : List (Array Nat) → Outcome Encoder
          | [] => .ok e
          | s :: ss => (stepE (e.add s)).bind fun p => addAll p.2 ss
        (addAll e (first :: rest)).bind fun e =>
          (stepE e.encode).bind fun p => .ok p.1

def addAllOriginal (d : Decoder) : List (Nat × Array Nat) → Outcome Decoder
  | [] => .ok d
  | (i, s) :: ss => (stepE (d.addOriginal i s)).bind fun p => addAllOriginal p.2 ss

def addAllRecovery (d : Decoder) : List (Nat × Array Nat) → Outcome Decoder
  | [] => .ok d
  | (i, s) :: ss => (stepE (d.addRecovery i s)).bind fun p => addAllRecovery p.2 ss

/-- `reed_solomon_simd::decode` (after fix D3: without recovery shards the shard size is taken
    from the first original shard and the input goes through the streaming decoder as well). -/
def oneShotDecode (stale : Stale) (lw : Array Nat) (k r : Nat)
    (original recovery : List (Nat × Array Nat)) : Outcome (List (Nat × Array Nat)) :=
  if !supportsDefault k r then .err (.unsupportedShardCount k r)
  else
    match recovery with
    | first :: _ =>
      (Decoder.new stale .default .twoLayer k r first.2.size none).bind fun d =>
        (addAllOriginal d original).bind fun d =>
          (addAllRecovery d recovery).bind fun d =>
            (stepE (d.decode lw)).bind fun p => .ok p.1
    | [] =>
      match original with
      | [] => .err (.notEnoughShards k 0 0)
      | first :: _ =>
        (Decoder.new stale .default .twoLayer k r first.2.size none).bind fun d =>
          (addAllOriginal d original).bind fun d =>
            (stepE (d.decode lw)).bind fun p => .ok p.1

end RS
