/- Support definitions for the translation of the result iterators (`Recovery`, `RestoredOriginal`),
   produced by /verif/translate/rs2lean_iter.py. -/
namespace RS.RustI

/-- The two fields of the iterator structs besides the borrowed work object. -/
structure IterS where
  ended : Bool
  next_index : Nat
deriving Repr, DecidableEq

/-- `while` loop with an early `return` in its body: `body go i` either answers or calls `go (i+1)`.
    `fuel` bounds the number of iterations (`none` = exhausted). -/
def scanFrom {ρ : Type} : Nat → ((Nat → Option ρ) → Nat → Option ρ) → Nat → Option ρ
  | 0, _, _ => none
  | fuel + 1, body, i => body (scanFrom fuel body) i

end RS.RustI
