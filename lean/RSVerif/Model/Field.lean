/-
  GF(2^16) as used by reed-solomon-simd, from the two published constants only:
  the field polynomial 0x1002D and the 16-element Cantor basis.

  A symbol of the crate (`GfElement = u16`) is the coordinate vector, w.r.t. the Cantor
  basis, of an element of GF(2)[x]/(x^16+x^5+x^3+x^2+1).  `phi` maps coordinates to the
  polynomial representation, `phiInv` back; `gmul` is the field product on coordinates.

  This file is import-free (it is linked into the `rsmodel` executable).
-/
namespace RS

/-- A 16-bit field symbol in the crate's (Cantor-coordinate) representation. -/
abbrev Sym := BitVec 16

/-- low 16 bits of the field polynomial 0x1002D -/
def polyLow : Sym := 0x002D#16

/-- multiplication by `x` in GF(2)[x]/(0x1002D), polynomial representation -/
def mulX (a : Sym) : Sym :=
  if a.msb then (a <<< 1) ^^^ polyLow else a <<< 1

/-- Horner evaluation of the carry-less product `a * b mod 0x1002D`:
    after `n` steps the `n` most significant bits of `b` have been consumed. -/
def pmulAux (a b : Sym) : Nat → Sym
  | 0 => 0#16
  | n + 1 => mulX (pmulAux a b n) ^^^ (if b.getLsbD (15 - n) then a else 0#16)

/-- product in the polynomial representation -/
def pmul (a b : Sym) : Sym := pmulAux a b 16

/-- XOR of the constants selected by the bits of `c` (bit `i` selects `cs[i]`). -/
def linMap : List Sym → Sym → Nat → Sym
  | [], _, _ => 0#16
  | k :: ks, c, i => (if c.getLsbD i then k else 0#16) ^^^ linMap ks c (i + 1)

/-- `CANTOR_BASIS` of `src/engine.rs` (pinned literal; compared with the crate on every run). -/
def cantorBasis : List Sym :=
  [0x0001#16, 0xACCA#16, 0x3C0E#16, 0x163E#16, 0xC582#16, 0xED2E#16, 0x914C#16, 0x4012#16,
   0x6C98#16, 0x10D8#16, 0x6A72#16, 0xB900#16, 0xFDB8#16, 0xFB34#16, 0xFF38#16, 0x991E#16]

/-- Cantor coordinates of the monomials `x^0 … x^15` (inverse matrix of `cantorBasis`;
    `phiInv_phi` below is the proof that it is the inverse). -/
def cantorInv : List Sym :=
  [0x0001#16, 0x4690#16, 0x65D8#16, 0x62D0#16, 0x5734#16, 0x45F0#16, 0x53B8#16, 0x1E38#16,
   0x7CAE#16, 0x4E38#16, 0x6708#16, 0xC25C#16, 0x7A64#16, 0x9EAC#16, 0x1124#16, 0x523A#16]

/-- coordinates → polynomial representation -/
def phi (c : Sym) : Sym := linMap cantorBasis c 0
/-- polynomial representation → coordinates -/
def phiInv (p : Sym) : Sym := linMap cantorInv p 0

/-- field product on Cantor coordinates (the crate's symbols) -/
def gmul (a b : Sym) : Sym := phiInv (pmul (phi a) (phi b))

/-- the field's one in coordinates -/
def gone : Sym := 1#16

/-- `a^n` by square-and-multiply (structural on the fuel `f`; `f = 17` covers every `n < 2^17`). -/
def gpowAux : Nat → Sym → Nat → Sym
  | 0, _, _ => gone
  | f + 1, a, n =>
    if n = 0 then gone
    else
      let h := gpowAux f (gmul a a) (n / 2)
      if n % 2 = 1 then gmul a h else h

def gpow (a : Sym) (n : Nat) : Sym := gpowAux 64 a n

/-- the generator `g` with `exp[k] = g^k` : coordinates of the polynomial `x`. -/
def gen : Sym := 0x4690#16

/-- `exp[m]` of the crate, as a function: `g^m`.  (`m = 65535` gives `g^65535 = 1`.) -/
def gexp (m : Nat) : Sym := gpow gen m

/-- the subspace (vanishing) polynomial `s_j(x) = Π_{v < 2^j} (x ⊕ v)` of the Cantor basis,
    by the recursion `s_{j+1}(x) = s_j(x) · (s_j(x) ⊕ s_j(2^j))` with `s_j(2^j) = 1`
    (Cantor property; `sPoly_basis` in the proofs checks it for all 16 levels). -/
def sPoly : Nat → Sym → Sym
  | 0, x => x
  | j + 1, x => let a := sPoly j x; gmul a (a ^^^ gone)

/-- number of trailing zero bits of a positive number (`fuel` bounds the search). -/
def tzAux : Nat → Nat → Nat
  | 0, _ => 0
  | f + 1, n => if n % 2 = 1 then 0 else 1 + tzAux f (n / 2)

def tz (n : Nat) : Nat := if n = 0 then 0 else tzAux 64 n

/-- The twiddle factor the crate stores (as a logarithm) in `skew[i]`, as a field element:
    with `j = tz (i+1)` it is `s_j((i+1) ⊕ 2^j)`; it is `0` exactly where the table holds 65535. -/
def skewElem (i : Nat) : Sym :=
  let n := i + 1
  let j := tz n
  sPoly j (BitVec.ofNat 16 (n - 2 ^ j))

end RS
