/-
  Engine selection of `DefaultEngine` (src/engine/engine_default.rs) as decision logic:
  the constructor and the associated function `eval_poly` each test the CPU features at run time.
  Import-free.
-/
namespace RS

inductive Isa where
  | avx2
  | ssse3
  | neon
  | portable
  deriving DecidableEq, Repr

/-- `DefaultEngine::new` on x86(-64): Avx2, then Ssse3, then NoSimd -/
def selectNewX86 (avx2 ssse3 : Bool) : Isa :=
  if avx2 then .avx2 else if ssse3 then .ssse3 else .portable

/-- `DefaultEngine::eval_poly` on x86(-64): a second, independent detection -/
def selectEvalX86 (avx2 ssse3 : Bool) : Isa :=
  if avx2 then .avx2 else if ssse3 then .ssse3 else .portable

/-- `DefaultEngine::new` on AArch64 -/
def selectNewArm (neon : Bool) : Isa := if neon then .neon else .portable

/-- `DefaultEngine::eval_poly` on AArch64 -/
def selectEvalArm (neon : Bool) : Isa := if neon then .neon else .portable

/-- is code compiled for `isa` legal on a CPU reporting the given features? -/
def legalX86 (avx2 ssse3 : Bool) : Isa → Bool
  | .avx2 => avx2
  | .ssse3 => ssse3
  | .portable => true
  | .neon => false

def legalArm (neon : Bool) : Isa → Bool
  | .neon => neon
  | .portable => true
  | _ => false

/-- capability order: avx2 > ssse3 > portable; neon > portable -/
def rank : Isa → Nat
  | .avx2 => 2
  | .ssse3 => 1
  | .neon => 1
  | .portable => 0

/-- the set of ISAs whose target-feature code a round on the default engine executes:
    the engine picked by `new` (mul / fft / ifft) and the one picked by `eval_poly` -/
def executedX86 (avx2 ssse3 : Bool) : List Isa :=
  ([selectNewX86 avx2 ssse3, selectEvalX86 avx2 ssse3].filter (· ≠ .portable)).eraseDups

def executedArm (neon : Bool) : List Isa :=
  ([selectNewArm neon, selectEvalArm neon].filter (· ≠ .portable)).eraseDups

end RS
