/-
  The butterfly loops of the engines transliterated statement by statement: in-place, sequential,
  in the loop order of the source (engine_naive.rs `fft` / `ifft`; engine_nosimd.rs `fft_private` /
  `ifft_private`, whose two-layer structure engine_ssse3/avx2/neon.rs copy).
  `Proofs/SeqEquiv.lean` proves these equal the pointwise layer model of Model/Engine.lean.
  Import-free.
-/
import RSVerif.Model.Engine

namespace RS
open ShardAlg

variable {V : Type} [ShardAlg V]

/-- `if log_m != GF_MODULUS { mul_add(a, b, log_m) } ; xor(b, a)` with `a = data[x]`, `b = data[y]`;
    the twiddle `c = 0` stands for `log_m = GF_MODULUS` (then `smul 0 _` is zero: xor only) -/
def fftBfly (c : Sym) (a : Array V) (x y : Nat) : Array V :=
  let a1 := a.setIfInBounds x (add (rd a x) (smul c (rd a y)))
  a1.setIfInBounds y (add (rd a1 y) (rd a1 x))

/-- `xor(b, a); if log_m != GF_MODULUS { mul_add(a, b, log_m) }` -/
def ifftBfly (c : Sym) (a : Array V) (x y : Nat) : Array V :=
  let a1 := a.setIfInBounds y (add (rd a y) (rd a x))
  a1.setIfInBounds x (add (rd a1 x) (smul c (rd a1 y)))

/-- `for i in r..r+dist { butterfly(pos+i, pos+i+dist) }` -/
def bflyRun (bf : Array V → Nat → Nat → Array V) (a : Array V) (pos r dist : Nat) : Array V :=
  (List.range dist).foldl (fun a i => bf a (pos + r + i) (pos + r + i + dist)) a

/-- the blocks `r = 0, step, 2 step, … < trunc` of a `while r < truncated_size { …; r += step }` loop -/
def blockStarts (trunc step : Nat) : List Nat :=
  (List.range ((trunc + step - 1) / step)).map (· * step)

/-- Naive: one layer at distance `dist` -/
def naiveFftLayerSeq (delta trunc pos dist : Nat) (a : Array V) : Array V :=
  (blockStarts trunc (2 * dist)).foldl
    (fun a r => bflyRun (fftBfly (skewElem (r + dist + delta - 1))) a pos r dist) a

def naiveIfftLayerSeq (delta trunc pos dist : Nat) (a : Array V) : Array V :=
  (blockStarts trunc (2 * dist)).foldl
    (fun a r => bflyRun (ifftBfly (skewElem (r + dist + delta - 1))) a pos r dist) a

/-- `Naive::fft`: `dist = size/2; while dist > 0 { …; dist /= 2 }` (`n = log2 size`) -/
def naiveFftSeq (a : Array V) (pos n trunc delta : Nat) : Array V :=
  ((List.range n).reverse.map (2 ^ ·)).foldl (fun a d => naiveFftLayerSeq delta trunc pos d a) a

/-- `Naive::ifft`: `dist = 1; while dist < size { …; dist *= 2 }` -/
def naiveIfftSeq (a : Array V) (pos n trunc delta : Nat) : Array V :=
  ((List.range n).map (2 ^ ·)).foldl (fun a d => naiveIfftLayerSeq delta trunc pos d a) a

/-- `fft_butterfly_two_layers(data, p, dist, log_m01, log_m23, log_m02)` on
    `s0 = data[p], s1 = data[p+dist], s2 = data[p+2dist], s3 = data[p+3dist]` -/
def fftTwoLayers (c01 c23 c02 : Sym) (a : Array V) (p dist : Nat) : Array V :=
  -- first layer: (s0, s2) and (s1, s3) with m02
  let a := fftBfly c02 a p (p + 2 * dist)
  let a := fftBfly c02 a (p + dist) (p + 3 * dist)
  -- second layer: (s0, s1) with m01, (s2, s3) with m23
  let a := fftBfly c01 a p (p + dist)
  fftBfly c23 a (p + 2 * dist) (p + 3 * dist)

def ifftTwoLayers (c01 c23 c02 : Sym) (a : Array V) (p dist : Nat) : Array V :=
  let a := ifftBfly c01 a p (p + dist)
  let a := ifftBfly c23 a (p + 2 * dist) (p + 3 * dist)
  let a := ifftBfly c02 a p (p + 2 * dist)
  ifftBfly c02 a (p + dist) (p + 3 * dist)

/-- one pass of the `while dist != 0` loop of `fft_private` at quarter distance `dist` -/
def twoFftPassSeq (delta trunc pos dist : Nat) (a : Array V) : Array V :=
  (blockStarts trunc (4 * dist)).foldl
    (fun a r =>
      let base := r + dist + delta - 1
      (List.range dist).foldl
        (fun a i => fftTwoLayers (skewElem base) (skewElem (base + 2 * dist)) (skewElem (base + dist))
          a (pos + r + i) dist) a) a

def twoIfftPassSeq (delta trunc pos dist : Nat) (a : Array V) : Array V :=
  (blockStarts trunc (4 * dist)).foldl
    (fun a r =>
      let base := r + dist + delta - 1
      (List.range dist).foldl
        (fun a i => ifftTwoLayers (skewElem base) (skewElem (base + 2 * dist)) (skewElem (base + dist))
          a (pos + r + i) dist) a) a

/-- `fft_private`: passes with `dist = size/4, size/16, …` then, if `log2 size` is odd,
    the final layer `dist = 1`: `for r in (0..trunc).step_by(2) { butterfly(pos+r, pos+r+1) with skew[r+delta] }` -/
def twoFftSeq (a : Array V) (pos n trunc delta : Nat) : Array V :=
  let passes := (List.range (n / 2)).map fun j => 2 ^ (n - 2 - 2 * j)
  let a := passes.foldl (fun a d => twoFftPassSeq delta trunc pos d a) a
  if n % 2 = 1 then
    (blockStarts trunc 2).foldl (fun a r => fftBfly (skewElem (r + delta)) a (pos + r) (pos + r + 1)) a
  else a

/-- `ifft_private`: passes with `dist = 1, 4, 16, …` while `4 dist ≤ size`, then, if `log2 size` is
    odd, the final layer at `dist = size/2` over ALL `i in 0..dist` (no truncation) -/
def twoIfftSeq (a : Array V) (pos n trunc delta : Nat) : Array V :=
  let passes := (List.range (n / 2)).map fun j => 2 ^ (2 * j)
  let a := passes.foldl (fun a d => twoIfftPassSeq delta trunc pos d a) a
  if n % 2 = 1 then
    let dist := 2 ^ (n - 1)
    bflyRun (ifftBfly (skewElem (dist + delta - 1))) a pos 0 dist
  else a

end RS
