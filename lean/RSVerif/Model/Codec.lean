/-
  Data path of the high-rate and low-rate encoders and decoders
  (`src/rate/rate_high.rs`, `src/rate/rate_low.rs`) as pure functions on the work memory,
  generic in the shard algebra `V` and in the butterfly schedule.

  Import-free (linked into `rsmodel`).
-/
import RSVerif.Model.Engine

namespace RS

open ShardAlg

/-- fallback of `npow2` above 65536 (never reached by a supported configuration) -/
def npow2Aux : Nat → Nat → Nat → Nat
  | 0, p, _ => p
  | f + 1, p, n => if n ≤ p then p else npow2Aux f (2 * p) n

/-- `usize::next_power_of_two` (as a comparison chain up to 2^16 so that `omega` can reason
    about supported configurations; `next_power_of_two(0) = 1`). -/
def npow2 (n : Nat) : Nat :=
  if n ≤ 1 then 1 else if n ≤ 2 then 2 else if n ≤ 4 then 4 else if n ≤ 8 then 8
  else if n ≤ 16 then 16 else if n ≤ 32 then 32 else if n ≤ 64 then 64 else if n ≤ 128 then 128
  else if n ≤ 256 then 256 else if n ≤ 512 then 512 else if n ≤ 1024 then 1024
  else if n ≤ 2048 then 2048 else if n ≤ 4096 then 4096 else if n ≤ 8192 then 8192
  else if n ≤ 16384 then 16384 else if n ≤ 32768 then 32768 else if n ≤ 65536 then 65536
  else npow2Aux 64 131072 n

/-- `usize::next_multiple_of` -/
def nextMultipleOf (n m : Nat) : Nat := if n % m = 0 then n else n + (m - n % m)

variable {V : Type} [ShardAlg V]

/-! ### encoders -/

/-- one full-chunk step of the high-rate encoder: chunk `c ≥ 1` -/
def highFullChunk (s : Sched) (chunk : Nat) (a : Array V) (c : Nat) : Array V :=
  let start := c * chunk
  let a := ifft s a start chunk chunk (start + chunk)
  xorWithin a 0 start chunk

/-- `HighRateEncoder::encode` after `encode_begin`: originals in `mem[0..k)`, result in `mem[0..r)`. -/
def encodeHigh (s : Sched) (k r : Nat) (mem : Array V) : Array V :=
  let chunk := npow2 r
  let first := min k chunk
  let a := zeroRange mem first chunk
  let a := ifft s a 0 chunk first chunk
  let a :=
    if k > chunk then
      let q := k / chunk
      let a := (List.range (q - 1)).foldl (fun a i => highFullChunk s chunk a (i + 1)) a
      let start := q * chunk
      let last := k % chunk
      if last > 0 then
        let a := zeroRange a (start + last) a.size
        let a := ifft s a start chunk last (start + chunk)
        xorWithin a 0 start chunk
      else a
    else a
  fft s a 0 chunk r 0

/-- `LowRateEncoder::encode` after `encode_begin`. -/
def encodeLow (s : Sched) (k r : Nat) (mem : Array V) : Array V :=
  let chunk := npow2 k
  let a := zeroRange mem k chunk
  let a := ifft s a 0 chunk k 0
  -- copy ifft result to the other chunks: chunk_start = chunk, 2 chunk, … < r
  let copies := (r + chunk - 1) / chunk - 1
  let a := (List.range copies).foldl (fun a i => copyWithin a 0 ((i + 1) * chunk) chunk) a
  -- full chunks
  let q := r / chunk
  let a := (List.range q).foldl
    (fun a c => fft s a (c * chunk) chunk chunk (c * chunk + chunk)) a
  let last := r % chunk
  if last > 0 then fft s a (q * chunk) chunk last (q * chunk + chunk) else a

/-! ### decoders -/

/-- erasure indicator of the high-rate decoder (65536 entries) -/
def erasuresHigh (k r : Nat) (recv : Nat → Bool) : Array Nat :=
  let chunk := npow2 r
  let oend := chunk + k
  Array.ofFn (n := 65536) fun i =>
    let i := i.val
    if i < r then (if recv i then 0 else 1)
    else if i < chunk then 1
    else if i < oend then (if recv i then 0 else 1)
    else 0

/-- erasure indicator of the low-rate decoder -/
def erasuresLow (k r : Nat) (recv : Nat → Bool) : Array Nat :=
  let chunk := npow2 k
  let rend := chunk + r
  Array.ofFn (n := 65536) fun i =>
    let i := i.val
    if i < k then (if recv i then 0 else 1)
    else if i < chunk then 0
    else if i < rend then (if recv i then 0 else 1)
    else 1

/-- the "multiply shards" phase: received positions are multiplied by the locator value,
    everything else in the work memory becomes zero. `isData p` says whether `p` is a shard slot. -/
def decodePrepare (isData : Nat → Bool) (recv : Nat → Bool) (loc : Array Nat) (a : Array V) : Array V :=
  Array.ofFn (n := a.size) fun p =>
    let p := p.val
    if isData p && recv p then mulLog (rd a p) (loc.getD p 0) else zero

/-- the "reveal erasures" phase on the original positions `[lo, hi)`. -/
def decodeReveal (lo hi : Nat) (recv : Nat → Bool) (loc : Array Nat) (a : Array V) : Array V :=
  Array.ofFn (n := a.size) fun p =>
    let p := p.val
    if lo ≤ p ∧ p < hi ∧ recv p = false then mulLog (rd a p) (65535 - loc.getD p 0) else rd a p

/-- `HighRateDecoder::decode` when `decode_begin` returned `Some`:
    recovery at `[0, r)`, originals at `[chunk, chunk + k)`, `mem.size = work_count`. -/
def decodeHigh (s : Sched) (lw : Array Nat) (k r : Nat) (recv : Nat → Bool) (mem : Array V) : Array V :=
  let chunk := npow2 r
  let oend := chunk + k
  let loc := evalPolyWith lw (erasuresHigh k r recv) oend
  let a := decodePrepare (fun p => p < r || (chunk ≤ p && p < oend)) recv loc mem
  let a := ifft s a 0 a.size oend 0
  let a := formalDerivative a
  let a := fft s a 0 a.size oend 0
  decodeReveal chunk oend recv loc a

/-- `LowRateDecoder::decode` when `decode_begin` returned `Some`:
    originals at `[0, k)`, recovery at `[chunk, chunk + r)`. -/
def decodeLow (s : Sched) (lw : Array Nat) (k r : Nat) (recv : Nat → Bool) (mem : Array V) : Array V :=
  let chunk := npow2 k
  let rend := chunk + r
  let loc := evalPolyWith lw (erasuresLow k r recv) 65536
  let a := decodePrepare (fun p => p < k || (chunk ≤ p && p < rend)) recv loc mem
  let a := ifft s a 0 a.size rend 0
  let a := formalDerivative a
  let a := fft s a 0 a.size rend 0
  decodeReveal 0 k recv loc a

/-! ### work-space geometry -/

def highEncWorkCount (k r : Nat) : Nat := nextMultipleOf k (npow2 r)
def lowEncWorkCount (k r : Nat) : Nat := nextMultipleOf r (npow2 k)
def highDecWorkCount (k r : Nat) : Nat := npow2 (npow2 r + k)
def lowDecWorkCount (k r : Nat) : Nat := npow2 (npow2 k + r)

end RS
