/-
  C04 — every even shard size works and symbol slots never interact.
  A shard of `sb` bytes is `sb/2` lanes (slots) of 16-bit symbols (`layout` / `unlayout`, the documented
  byte placement); the codec on `Vector Sym L` acts lane-wise, so slot `l` of every output is the codec
  applied to slot `l` of the inputs (a 2-byte shard).
-/
import RSVerif.Proofs.Hom
import RSVerif.Proofs.Layout
import RSVerif.Proofs.RestoredBasic
import RSVerif.Proofs.BlocksSpec
import RSVerif.Proofs.FlatSpec
import RSVerif.Proofs.SrcBytesSpec

namespace RS

/-- slot homomorphism: projecting to lane `l` commutes with both encoders and both decoders, for
    every configuration, schedule, received set and lane count -/
theorem slot_hom {L : Nat} (l : Fin L) (s : Sched) (lw : Array Nat) (k r : Nat) (recv : Nat → Bool)
    (mem : Array (Vector Sym L)) :
    (encodeHigh s k r mem).map (·[l]) = encodeHigh s k r (mem.map (·[l])) ∧
    (encodeLow s k r mem).map (·[l]) = encodeLow s k r (mem.map (·[l])) ∧
    (decodeHigh s lw k r recv mem).map (·[l]) = decodeHigh s lw k r recv (mem.map (·[l])) ∧
    (decodeLow s lw k r recv mem).map (·[l]) = decodeLow s lw k r recv (mem.map (·[l])) :=
  ⟨encodeHigh_lane l s k r mem, encodeLow_lane l s k r mem,
   decodeHigh_lane l s lw k r recv mem, decodeLow_lane l s lw k r recv mem⟩

/-- bytes → slots → bytes is the identity for every even size (multiples of 64 or not),
    and slots → bytes → slots as well: the byte format carries exactly `sb/2` independent slots -/
theorem layout_roundtrip (sb : Nat) (b : Array Nat) (v : Vector Sym (sb / 2)) (hsb : sb % 2 = 0)
    (hb : b.size = sb) (hbyte : ∀ i, i < sb → b.getD i 0 < 256) :
    unlayout sb (layout sb b) = b ∧ layout sb (unlayout sb v) = v :=
  ⟨unlayout_layout hsb hb hbyte, layout_unlayout v⟩

/-- documented placement: in a full 64-byte block the high byte of a slot is 32 bytes after its low
    byte, in a final block of `t = sb % 64` bytes it is `t/2` after; every byte belongs to exactly one
    (slot, half) -/
theorem layout_placement (sb l : Nat) (h : l < sb / 2) :
    loIdx l = 64 * (l / 32) + l % 32 ∧
    (l / 32 < sb / 64 → hiIdx sb l = loIdx l + 32) ∧
    (¬ l / 32 < sb / 64 → hiIdx sb l = loIdx l + (sb % 64) / 2) ∧
    loIdx l < sb ∧ hiIdx sb l < sb ∧
    byteLane sb (loIdx l) = (l, false) ∧ byteLane sb (hiIdx sb l) = (l, true) :=
  ⟨loIdx_eq l, hiIdx_full, hiIdx_partial, loIdx_lt h, hiIdx_lt h, byteLane_loIdx h, byteLane_hiIdx h⟩

/-- the two bytes of slot `l` of an exposed shard depend on slot `l` only -/
theorem output_bytes_of_slot (sb : Nat) (v : Vector Sym (sb / 2)) (l : Nat) (h : l < sb / 2) :
    (unlayout sb v)[loIdx l]! = (v[l]).toNat % 256 ∧ (unlayout sb v)[hiIdx sb l]! = (v[l]).toNat / 256 :=
  ⟨unlayout_loIdx v h, unlayout_hiIdx v h⟩

/-- every exposed shard has exactly `shard_bytes` bytes -/
theorem lengths (we : EncWork) (wd : DecWork) (i : Nat) (s : Array Nat) :
    (we.recovery i = some s → s.size = we.sb) ∧ (wd.restoredOriginal i = some s → s.size = wd.sb) :=
  ⟨fun h => by
      unfold EncWork.recovery at h
      split at h
      · simp only [Option.some.injEq] at h; subst h; simp [unlayout]
      · simp at h,
   fun h => restoredOriginal_size wd i s h⟩

/-- the REAL memory layout (64-byte blocks, 32 low bytes then 32 high bytes; `Shards::insert` with the
    split tail; unused lanes of the final block keep stale bytes) refines the slot model: after `insert`
    the data lanes hold the documented symbols and the other lanes are untouched … -/
theorem blocks_insert (sb : Nat) (hsb : sb % 2 = 0) (old : BShard) (hold : old.size = (sb + 63) / 64)
    (shard : Array Nat) (hs : shard.size = sb) (l : Nat) :
    (l < sb / 2 → bLane (bInsert old shard) l = (layout sb shard)[l]!) ∧
    (sb / 2 ≤ l → l < 32 * old.size → bLane (bInsert old shard) l = bLane old l) := by
  constructor
  · intro hl
    rw [bLane_bInsert sb hsb old hold shard hs l hl]
    simp [hl]
  · intro h1 h2
    exact bLane_bInsert_stale sb hsb old shard hs l h1 h2

/-- … the exposed bytes (`undo_last_chunk_encoding`, slice to `shard_bytes`) depend only on the data
    lanes, never on stale lanes; inserting and exposing is the identity on bytes … -/
theorem blocks_expose (sb : Nat) (hsb : sb % 2 = 0) (s s' old : BShard) (hsz : s.size = (sb + 63) / 64)
    (hsz' : s'.size = (sb + 63) / 64) (hold : old.size = (sb + 63) / 64) (shard : Array Nat)
    (hs : shard.size = sb) (hbyte : ∀ i, i < sb → shard.getD i 0 < 256) :
    ((∀ l, l < sb / 2 → bLane s l = bLane s' l) →
      bSlice (bUndoLast s sb) sb = bSlice (bUndoLast s' sb) sb) ∧
    bSlice (bUndoLast (bInsert old shard) sb) sb = shard :=
  ⟨bSlice_bUndoLast_congr sb hsb s s' hsz hsz', bSlice_bUndoLast_bInsert sb hsb old hold shard hs hbyte⟩

/-- … and every kernel acts lane-wise on (byte i, byte i+32) pairs: xor and multiply on blocks are xor
    and multiply on lanes, so stale lanes never reach data lanes -/
theorem blocks_lanewise (f : Sym → Sym) (x y : BShard) (l : Nat) (hl : l < 32 * x.size) :
    bLane (bXor x y) l = bLane x l ^^^ bLane y l ∧ bLane (bMul f x) l = f (bLane x l) :=
  ⟨bLane_bXor x y l hl, bLane_bMul f x l hl⟩

/-- the codecs run on BLOCK memory (shards of `n` 64-byte blocks, xor bytewise, multiply on the 32
    (low byte, high byte) pairs of every block — stale tail lanes included) are, lane by lane, the codecs
    of the lane model: every theorem stated on lanes holds for the block memory -/
theorem block_memory_codec (n : Nat) (s : Sched) (lw : Array Nat) (k r : Nat) (recv : Nat → Bool)
    (mem : Array (BVec n)) :
    (encodeHigh s k r mem).map (bvecLanes n) = encodeHigh s k r (mem.map (bvecLanes n)) ∧
    (encodeLow s k r mem).map (bvecLanes n) = encodeLow s k r (mem.map (bvecLanes n)) ∧
    (decodeHigh s lw k r recv mem).map (bvecLanes n) = decodeHigh s lw k r recv (mem.map (bvecLanes n)) ∧
    (decodeLow s lw k r recv mem).map (bvecLanes n) = decodeLow s lw k r recv (mem.map (bvecLanes n)) :=
  ⟨encodeHigh_blocks n s k r mem, encodeLow_blocks n s k r mem,
   decodeHigh_blocks n s lw k r recv mem, decodeLow_blocks n s lw k r recv mem⟩

/-- `Shards::resize` keeps old bytes: block `k` of shard `p` after a resize is whatever the flat vector
    held at `p·n + k` before (stale data of an earlier, differently shaped round), zero only beyond the
    old length — the memory every `∀ stale` theorem quantifies over -/
theorem resize_keeps_stale_blocks (f : Flat) (c n p k : Nat) (hp : p < c) (hk : k < n) :
    (rd ((f.resize c n).absAt n) p)[k] =
      if p * n + k < f.data.size then f.data.getD (p * n + k) zeroBlock else zeroBlock :=
  Flat.resize_abs_prefix f c n p k hp hk

open RS.SrcS RS.RustS RS.RustB in
/-- the BYTE LAYOUT code of the working memory AS TRANSLATED FROM TODAY'S SOURCE (`Gen/SrcBytes.lean`, regenerated by
    `/verif/translate/rs2lean_bytes.py` on every run: `Shards::insert` — whole chunks copied, the tail split into a low
    and a high half inside the last chunk — and `Shards::undo_last_chunk_encoding` — the high half moved next to the
    low half, memmove semantics — as the lists of byte copies they perform): for every memory, every shard index
    and every even shard length, `insert` panics exactly when the shard does not fit a work shard and otherwise
    turns that shard of the memory into the block model's `bInsert` (the function `blocks_insert` relates to the
    lane model) and leaves all others alone; `undo_last_chunk_encoding` never panics for a size that fits and
    applies `bUndoLast` (of `blocks_expose`) to exactly the shards of its range -/
theorem source_layout_is_block_model (f : Flat) (hwf : f.WF) (hs : f.data.size < 288230376151711744)
    (hc : f.count < 18446744073709551616) (index : Nat) (hi : index < f.count) (shard : Array Nat)
    (he : shard.size % 2 = 0) (sb a b : Nat) (hb : b ≤ f.count) (hsb : sb ≤ 64 * f.len64) :
    ((64 * f.len64 < shard.size → Shards_insert (hdr f) index shard.size = none) ∧
     (shard.size ≤ 64 * f.len64 →
       ∃ cs, Shards_insert (hdr f) index shard.size = some cs ∧
         ∀ j, j < f.count →
           Flat.shard { f with data := applyFromShard f.data shard cs } j =
             if j = index then (f.shard j).map (fun old => bInsert old shard) else f.shard j)) ∧
    (∃ cs, Shards_undo_last_chunk_encoding (hdr f) sb (a, b) = some cs ∧
       ∀ j, j < f.count →
         Flat.shard { f with data := applyMoves f.data cs } j =
           if a ≤ j ∧ j < b then (f.shard j).map (fun s => bUndoLast s sb) else f.shard j) :=
  ⟨src_insert f hwf hs hc index hi shard he, src_undo_last_chunk_encoding f hwf hs sb a b hb hsb⟩

end RS
