/-
  C07 — a failed call changes nothing and leaves the object usable.
-/
import RSVerif.Proofs.InvPres

namespace RS

/-- a call that does not return Ok returns the object unchanged (structural equality of the whole
    model state: configuration, counters, bitmap, memory, inner codec) -/
theorem err_preserves_state (stale : Stale) (lw : Array Nat) (k r sb : Nat) (e : Encoder) (d : Decoder)
    (he : e.Inv) (hd : d.Inv) (shard : Array Nat) (i : Nat) :
    ((∀ a, (e.reset stale k r sb).1 ≠ .ok a) → (e.reset stale k r sb).2 = e) ∧
    ((∀ a, (e.add shard).1 ≠ .ok a) → (e.add shard).2 = e) ∧
    ((∀ a, e.encode.1 ≠ .ok a) → e.encode.2 = e) ∧
    ((∀ a, (d.reset stale k r sb).1 ≠ .ok a) → (d.reset stale k r sb).2 = d) ∧
    ((∀ a, (d.addOriginal i shard).1 ≠ .ok a) → (d.addOriginal i shard).2 = d) ∧
    ((∀ a, (d.addRecovery i shard).1 ≠ .ok a) → (d.addRecovery i shard).2 = d) ∧
    ((∀ a, (d.decode lw).1 ≠ .ok a) → (d.decode lw).2 = d) :=
  ⟨Encoder.reset_failed_unchanged he stale k r sb, Encoder.add_failed_unchanged he shard,
   Encoder.encode_failed_unchanged he, Decoder.reset_failed_unchanged hd stale k r sb,
   Decoder.addOriginal_failed_unchanged hd i shard, Decoder.addRecovery_failed_unchanged hd i shard,
   Decoder.decode_failed_unchanged hd lw⟩

/-- the inner codec is never `None` in a reachable state (the repaired defect D1), so the object
    stays usable: later calls cannot hit `unreachable!()` -/
theorem inner_never_none (e : Encoder) (d : Decoder) (he : e.Inv) (hd : d.Inv) :
    (∃ rate w, e.inner = .some rate w) ∧ (∃ rate w, d.inner = .some rate w) :=
  ⟨Encoder.Inv.inner_ne_none he, Decoder.Inv.inner_ne_none hd⟩

/-- transparency: for every sequence of calls (reset / add / encode), deleting the calls that fail
    leaves the final state — hence every later answer — unchanged -/
theorem err_transparent_enc (stale : Stale) (e : Encoder) (he : e.Inv) (ops : List EncOp) :
    e.run stale ops = e.run stale (Encoder.okOps stale e ops) ∧
    Encoder.allOk stale e (Encoder.okOps stale e ops) = true :=
  ⟨Encoder.run_filter_failed he stale ops, Encoder.okOps_allOk he stale ops⟩

theorem err_transparent_dec (stale : Stale) (lw : Array Nat) (d : Decoder) (hd : d.Inv) (ops : List DecOp) :
    d.run stale lw ops = d.run stale lw (Decoder.okOps stale lw d ops) ∧
    Decoder.allOk stale lw d (Decoder.okOps stale lw d ops) = true :=
  ⟨Decoder.run_filter_failed hd stale lw ops, Decoder.okOps_allOk hd stale lw ops⟩

/-- the replay of defect D1 on the model of the repaired code: reset with supported counts and an
    invalid shard size fails, leaves the encoder as it was, and the next add succeeds -/
example : ∃ e : Encoder, Encoder.new (fun L _ => Vector.replicate L 0#16) .default .twoLayer 2 3 64 none = .ok e ∧
    (e.reset (fun L _ => Vector.replicate L 0#16) 2 3 7) = (.err (.invalidShardSize 7), e) :=
  ⟨_, rfl, rfl⟩

end RS
