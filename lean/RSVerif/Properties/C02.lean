/-
  C02 — recovery shards are one fixed scaled-Cauchy Reed-Solomon code over GF(2^16).

  `cauchyEncode` (Model/Spec.lean) is the closed form of the property statement, computed from the
  field polynomial 0x1002D and the Cantor basis only (direct products, no FFT, no tables):
      high rate: G[j][i] = s_m(m+i) / (W_m · (j ⊕ (m+i))),  m = npow2 r
      low rate:  G[j][i] = s_m(m+j) / (W_m · ((m+j) ⊕ i)),  m = npow2 k
  The theorems say that the FFT-based encoders of the model compute exactly `G · data`, for EVERY
  supported configuration, every butterfly schedule (engine), every lane count (shard size) and every
  data.  Proof chain (all Lean, Mathlib for the polynomial part): field laws → GF16 is a field →
  fft/ifft evaluate / interpolate in the LCH basis (Proofs/FftEval.lean) → Lagrange interpolation on
  cosets of the subspace V_m gives the Cauchy entries (Proofs/Lagrange.lean) → assembly over the
  chunk structure of the encoders (Proofs/CauchyEnc*.lean).
-/
import RSVerif.Proofs.CauchyEnc
import RSVerif.Properties.C13

namespace RS

/-- high rate: recovery shard `j` = Σ_i G[j][i] · original `i`, lane by lane -/
theorem encode_high_eq_cauchy {L : Nat} (s : Sched) (k r : Nat) (hsup : supportsHigh k r = true)
    (mem : Array (Vector Sym L)) (hsz : mem.size = highEncWorkCount k r) (j : Nat) (hj : j < r) :
    rd (encodeHigh s k r mem) j
      = (cauchyEncode .high k r (mem.extract 0 k)).getD j (Vector.replicate L 0#16) :=
  encodeHigh_eq_cauchy s k r hsup mem hsz hj

/-- low rate -/
theorem encode_low_eq_cauchy {L : Nat} (s : Sched) (k r : Nat) (hsup : supportsLow k r = true)
    (mem : Array (Vector Sym L)) (hsz : mem.size = lowEncWorkCount k r) (j : Nat) (hj : j < r) :
    rd (encodeLow s k r mem) j
      = (cauchyEncode .low k r (mem.extract 0 k)).getD j (Vector.replicate L 0#16) :=
  encodeLow_eq_cauchy s k r hsup mem hsz hj

/-- single symbol slot, matrix entries written out: slot of recovery shard `j` is the GF(2^16) sum
    over `i` of `cauchyHigh k r j i` (resp. `cauchyLow`) times the same slot of original shard `i` -/
theorem encode_slot_eq_matrix (s : Sched) (k r : Nat) (mem : Array Sym) (j : Nat) (hj : j < r) :
    (supportsHigh k r = true → mem.size = highEncWorkCount k r →
      rd (encodeHigh s k r mem) j = xsum k (fun i => gmul (cauchyHigh k r j i) (rd mem i))) ∧
    (supportsLow k r = true → mem.size = lowEncWorkCount k r →
      rd (encodeLow s k r mem) j = xsum k (fun i => gmul (cauchyLow k r j i) (rd mem i))) :=
  ⟨fun h hs => CE.encodeHigh_sym s k r h mem hs hj, fun h hs => CE.encodeLow_sym s k r h mem hs hj⟩

/-- hence the recovery shards are a pure function of (k, r, rate, original data): independent of the
    engine / schedule and of everything else in the working memory -/
theorem encode_pure {L : Nat} (s s' : Sched) (k r : Nat) (mem mem' : Array (Vector Sym L)) (j : Nat) (hj : j < r)
    (hdata : mem.extract 0 k = mem'.extract 0 k) :
    (supportsHigh k r = true → mem.size = highEncWorkCount k r → mem'.size = highEncWorkCount k r →
      rd (encodeHigh s k r mem) j = rd (encodeHigh s' k r mem') j) ∧
    (supportsLow k r = true → mem.size = lowEncWorkCount k r → mem'.size = lowEncWorkCount k r →
      rd (encodeLow s k r mem) j = rd (encodeLow s' k r mem') j) := by
  constructor
  · intro h h1 h2
    rw [encodeHigh_eq_cauchy s k r h mem h1 hj, encodeHigh_eq_cauchy s' k r h mem' h2 hj, hdata]
  · intro h h1 h2
    rw [encodeLow_eq_cauchy s k r h mem h1 hj, encodeLow_eq_cauchy s' k r h mem' h2 hj, hdata]

/-- non-vacuity / sanity: (k, r) = (2, 3) is low rate with m = 2; the first matrix entry evaluated
    by the kernel from the closed form -/
example : supportsLow 2 3 = true ∧ lowEncWorkCount 2 3 = 4 := by decide

end RS
