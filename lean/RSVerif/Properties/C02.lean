/-
  C02 — recovery shards are one fixed scaled-Cauchy Reed-Solomon code over GF(2^16).

  `cauchyEncode` (Model/Spec.lean) is the closed form of the property statement, computed from the
  field polynomial 0x1002D and the Cantor basis only (direct products, no FFT, no tables):
      high rate: G[j][i] = s_m(m+i) / (W_m · (j ⊕ (m+i))),  m = npow2 r
      low rate:  G[j][i] = s_m(m+j) / (W_m · ((m+j) ⊕ i)),  m = npow2 k
  The theorems say that the FFT-based encoders of the model compute exactly `G · data`, for EVERY
  supported configuration, every butterfly schedule (engine), every lane count (shard size) and every
  data.  Proof chain (all Lean, Mathlib for the polynomial part): field laws → GF16 is a field →
  fft/ifft evaluate / interpolate in the LCH basis (Proofs/FftEval.lean) → Lagrange interpolation on
  cosets of the subspace V_m gives the Cauchy entries (Proofs/Lagrange.lean) → assembly over the
  chunk structure of the encoders (Proofs/CauchyEnc*.lean).
-/
import RSVerif.Proofs.CauchyEnc
import RSVerif.Properties.C13
import RSVerif.Proofs.FlatEndToEnd
import RSVerif.Proofs.SrcCodecSpec

namespace RS

/-- high rate: recovery shard `j` = Σ_i G[j][i] · original `i`, lane by lane -/
theorem encode_high_eq_cauchy {L : Nat} (s : Sched) (k r : Nat) (hsup : supportsHigh k r = true)
    (mem : Array (Vector Sym L)) (hsz : mem.size = highEncWorkCount k r) (j : Nat) (hj : j < r) :
    rd (encodeHigh s k r mem) j
      = (cauchyEncode .high k r (mem.extract 0 k)).getD j (Vector.replicate L 0#16) :=
  encodeHigh_eq_cauchy s k r hsup mem hsz hj

/-- low rate -/
theorem encode_low_eq_cauchy {L : Nat} (s : Sched) (k r : Nat) (hsup : supportsLow k r = true)
    (mem : Array (Vector Sym L)) (hsz : mem.size = lowEncWorkCount k r) (j : Nat) (hj : j < r) :
    rd (encodeLow s k r mem) j
      = (cauchyEncode .low k r (mem.extract 0 k)).getD j (Vector.replicate L 0#16) :=
  encodeLow_eq_cauchy s k r hsup mem hsz hj

/-- single symbol slot, matrix entries written out: slot of recovery shard `j` is the GF(2^16) sum
    over `i` of `cauchyHigh k r j i` (resp. `cauchyLow`) times the same slot of original shard `i` -/
theorem encode_slot_eq_matrix (s : Sched) (k r : Nat) (mem : Array Sym) (j : Nat) (hj : j < r) :
    (supportsHigh k r = true → mem.size = highEncWorkCount k r →
      rd (encodeHigh s k r mem) j = xsum k (fun i => gmul (cauchyHigh k r j i) (rd mem i))) ∧
    (supportsLow k r = true → mem.size = lowEncWorkCount k r →
      rd (encodeLow s k r mem) j = xsum k (fun i => gmul (cauchyLow k r j i) (rd mem i))) :=
  ⟨fun h hs => CE.encodeHigh_sym s k r h mem hs hj, fun h hs => CE.encodeLow_sym s k r h mem hs hj⟩

/-- hence the recovery shards are a pure function of (k, r, rate, original data): independent of the
    engine / schedule and of everything else in the working memory -/
theorem encode_pure {L : Nat} (s s' : Sched) (k r : Nat) (mem mem' : Array (Vector Sym L)) (j : Nat) (hj : j < r)
    (hdata : mem.extract 0 k = mem'.extract 0 k) :
    (supportsHigh k r = true → mem.size = highEncWorkCount k r → mem'.size = highEncWorkCount k r →
      rd (encodeHigh s k r mem) j = rd (encodeHigh s' k r mem') j) ∧
    (supportsLow k r = true → mem.size = lowEncWorkCount k r → mem'.size = lowEncWorkCount k r →
      rd (encodeLow s k r mem) j = rd (encodeLow s' k r mem') j) := by
  constructor
  · intro h h1 h2
    rw [encodeHigh_eq_cauchy s k r h mem h1 hj, encodeHigh_eq_cauchy s' k r h mem' h2 hj, hdata]
  · intro h h1 h2
    rw [encodeLow_eq_cauchy s k r h mem h1 hj, encodeLow_eq_cauchy s' k r h mem' h2 hj, hdata]

/-- the same on the REAL memory: `HighRateEncoder::encode` / `LowRateEncoder::encode` transliterated on the
    flat `Vec<[u8; 64]>` (index arithmetic, `dist2_mut` / `dist4_mut` / `split_at_mut` views, `zero`,
    `copy_within`, `xor_within`, byte-level xor and multiply; Model/Flat.lean, Model/FlatEngine.lean)
    never panic and leave, in every one of the `32·len64` symbol lanes of recovery shard `j`, the
    closed-form code word `Σ_i G[j][i]·original_i` — for both engine families (`s`) -/
theorem flat_encode_is_cauchy (s : Sched) (f : Flat) (k r : Nat) (hwf : f.WF) (hn : 0 < f.len64)
    (j : Nat) (hj : j < r) :
    (supportsHigh k r = true → f.count = highEncWorkCount k r →
      ∃ f', flatEncodeHigh s f k r = some f' ∧ f'.WF ∧
        f'.lanesAt f.len64 j =
          (cauchyEncode .high k r ((f.absV.map (bvecLanes f.len64)).extract 0 k)).getD j
            (Vector.replicate (32 * f.len64) 0#16)) ∧
    (supportsLow k r = true → f.count = lowEncWorkCount k r →
      ∃ f', flatEncodeLow s f k r = some f' ∧ f'.WF ∧
        f'.lanesAt f.len64 j =
          (cauchyEncode .low k r ((f.absV.map (bvecLanes f.len64)).extract 0 k)).getD j
            (Vector.replicate (32 * f.len64) 0#16)) :=
  ⟨fun hs hc => flatEncodeHigh_eq_cauchy s f k r hs hc hwf hn j hj,
   fun hs hc => flatEncodeLow_eq_cauchy s f k r hs hc hwf hn j hj⟩

open RS.RustC RS.SrcC in
/-- the encoder bodies AS TRANSLATED FROM TODAY'S SOURCE (`Gen/SrcCodec.lean`, regenerated by
    `/verif/translate/rs2lean_codec.py` on every run: the control flow of `HighRateEncoder::encode` /
    `LowRateEncoder::encode` — chunk loops, `usize` arithmetic, skew offsets — evaluated to the program of
    engine / memory operations it performs): for every supported configuration no `usize` operation overflows,
    no loop runs out of fuel, and the program, run with the model's primitives, leaves in recovery position
    `j` exactly the closed-form code word `Σ_i G[j][i]·original_i` -/
theorem source_encode_is_cauchy {L : Nat} (s : Sched) (lw : Array Nat) (k r : Nat)
    (mem : Array (Vector Sym L)) (j : Nat) (hj : j < r) :
    (supportsHigh k r = true → mem.size = highEncWorkCount k r →
      ∃ ops, HighRateEncoder_encode k r = some ops ∧
        rd (runOps s lw ops mem).mem j
          = (cauchyEncode .high k r (mem.extract 0 k)).getD j (Vector.replicate L 0#16)) ∧
    (supportsLow k r = true → mem.size = lowEncWorkCount k r →
      ∃ ops, LowRateEncoder_encode k r = some ops ∧
        rd (runOps s lw ops mem).mem j
          = (cauchyEncode .low k r (mem.extract 0 k)).getD j (Vector.replicate L 0#16)) := by
  constructor
  · intro hsup hsz
    obtain ⟨ops, h1, h2⟩ := src_encode_high s lw k r hsup mem hsz
    exact ⟨ops, h1, by rw [h2]; exact encodeHigh_eq_cauchy s k r hsup mem hsz hj⟩
  · intro hsup hsz
    obtain ⟨ops, h1, h2⟩ := src_encode_low s lw k r hsup mem hsz
    exact ⟨ops, h1, by rw [h2]; exact encodeLow_eq_cauchy s k r hsup mem hsz hj⟩

/-- non-vacuity / sanity: (k, r) = (2, 3) is low rate with m = 2; the first matrix entry evaluated
    by the kernel from the closed form -/
example : supportsLow 2 3 = true ∧ lowEncWorkCount 2 3 = 4 := by decide

end RS
