/-
  C01 — any original_count of the shards restore every missing original.

  MAIN THEOREM `roundtrip`: for every flavour of encoder and decoder that agree on the rate, every
  supported (k, r), every even shard size, every original data (bytes), every list `os` of original
  indexes and `rs` of recovery indexes that the decoder accepts (in range, distinct) with
  |os| + |rs| ≥ k: encoding the originals on the model encoder and giving those shards, under their
  encode-time indexes, to the model decoder makes `decode` return Ok with exactly the originals that
  were not given, byte for byte, in ascending order.  Any engine (schedule) on either side, any stale
  working memory, the real log-Walsh table of the model.

  Proof chain (all Lean; Mathlib for the polynomial part):
    field laws (Proofs/FieldLaws) → GF16 is a field, generator of order 65535 (Proofs/GF16*) →
    fft / ifft evaluate / interpolate LCH-basis polynomials (Proofs/FftEval) →
    Lagrange interpolation on cosets gives the Cauchy generator matrix (Proofs/Lagrange, CauchyEnc*) →
    codeword polynomial (Proofs/Codeword) → formal derivative in the LCH basis is `G + G'`
    (Proofs/FormalDeriv, LchDeriv) → decoder core `F·e'` at the erased points (Proofs/DecCore) →
    eval_poly computes the logs of the locator: Walsh–Hadamard convolution theorem over ZMod 65535
    (Proofs/Walsh, WalshSpec) and the table contents (Proofs/TableSpec, LocatorSpec) →
    assembly through prepare / reveal, lanes, byte layout, bookkeeping (Proofs/Roundtrip*).
-/
import RSVerif.Proofs.Roundtrip
import RSVerif.Proofs.LocatorSpec
import RSVerif.Proofs.RestoredBasic
import RSVerif.Proofs.FlatEndToEnd
import RSVerif.Proofs.SrcCodecSpec
import RSVerif.Proofs.SrcUtilsSpec

namespace RS

/-- the result object exposes exactly the in-range originals that were not given, ascending, each of
    exactly `shard_bytes` bytes; with at least `k` shards added `decode` answers ok (no error, no
    panic) in every state -/
theorem answer_shape (lw : Array Nat) (d : Decoder) (rate : Rate) (w : DecWork)
    (hin : d.inner = .some rate w) :
    w.restoredList.map (·.1) = (List.range w.k).filter (fun i => !(w.recvAt (w.obase + i))) ∧
    (∀ i s, w.restoredOriginal i = some s → s.size = w.sb) ∧
    (w.k ≤ w.orecv + w.rrecv → ∃ out d', d.decode lw = (.ok out, d')) :=
  ⟨restoredList_indices w, restoredOriginal_size w, decode_ok_of_enough lw d rate w hin⟩

/-- the model's `eval_poly` (with the model's log-Walsh table) returns, for every field point, the
    discrete log of the erasure-locator product — for both decoders and every received set -/
theorem locator_logs_correct (rate : Rate) (k r : Nat) (hsup : supportsRate rate k r = true)
    (recv : Nat → Bool) : LocSpecRate rate logWalshArr k r recv := by
  cases rate
  · have hr : r ≤ npow2 r := by
      have : r < 65536 := by
        simp only [supportsRate, supportsHigh, Bool.and_eq_true, decide_eq_true_eq] at hsup
        exact hsup.1.2
      exact le_npow2 (by omega)
    intro x hx
    exact locator_high k r recv hr x hx
  · intro x hx
    exact locator_low k r recv x hx

/-- data path, high rate: given ≥ k shards of an encoding (originals at their positions, recovery =
    closed-form Cauchy code = what the encoder produces, C02), the decoder's memory holds the original
    at every missing original position — every schedule, every lane count -/
theorem decode_high_restores {L : Nat} (s : Sched) (k r : Nat) (hsup : supportsHigh k r = true)
    (orig : Array (Vector Sym L)) (horig : orig.size = k) (recv : Nat → Bool)
    (mem : Array (Vector Sym L)) (hsz : mem.size = highDecWorkCount k r)
    (hO : ∀ i, i < k → recv (npow2 r + i) = true →
      rd mem (npow2 r + i) = orig.getD i (Vector.replicate L 0#16))
    (hR : ∀ j, j < r → recv j = true →
      rd mem j = (cauchyEncode .high k r orig).getD j (Vector.replicate L 0#16))
    (hEnough : ((List.range k).filter (fun i => !recv (npow2 r + i))).length
      ≤ ((List.range r).filter (fun j => recv j)).length) :
    ∀ i, i < k → recv (npow2 r + i) = false →
      rd (decodeHigh s logWalshArr k r recv mem) (npow2 r + i) = orig.getD i (Vector.replicate L 0#16) :=
  decodeHigh_correct s logWalshArr k r hsup orig horig recv mem hsz hO hR hEnough
    (locator_logs_correct .high k r hsup recv)

/-- data path, low rate -/
theorem decode_low_restores {L : Nat} (s : Sched) (k r : Nat) (hsup : supportsLow k r = true)
    (orig : Array (Vector Sym L)) (horig : orig.size = k) (recv : Nat → Bool)
    (mem : Array (Vector Sym L)) (hsz : mem.size = lowDecWorkCount k r)
    (hO : ∀ i, i < k → recv i = true → rd mem i = orig.getD i (Vector.replicate L 0#16))
    (hR : ∀ j, j < r → recv (npow2 k + j) = true →
      rd mem (npow2 k + j) = (cauchyEncode .low k r orig).getD j (Vector.replicate L 0#16))
    (hEnough : ((List.range k).filter (fun i => !recv i)).length
      ≤ ((List.range r).filter (fun j => recv (npow2 k + j))).length) :
    ∀ i, i < k → recv i = false →
      rd (decodeLow s logWalshArr k r recv mem) i = orig.getD i (Vector.replicate L 0#16) :=
  decodeLow_correct s logWalshArr k r hsup orig horig recv mem hsz hO hR hEnough
    (locator_logs_correct .low k r hsup recv)

/-- ROUND TRIP on the objects (see the header). `orig` are the original shards as bytes. -/
theorem roundtrip (staleE staleD : Stale) (kindE kindD : Kind) (schedE schedD : Sched)
    (k r sb : Nat) (orig : List (Array Nat))
    (hlen : orig.length = k) (hsz : ∀ i, i < k → (orig.getD i #[]).size = sb)
    (hbytes : ∀ i, i < k → ∀ t, t < sb → (orig.getD i #[]).getD t 0 < 256)
    (rate : Rate) (hrE : chooseRate kindE k r = .ok rate) (hrD : chooseRate kindD k r = .ok rate)
    (e0 e1 : Encoder) (hnewE : Encoder.new staleE kindE schedE k r sb none = .ok e0)
    (hadd : oneShotEncode.addAll e0 orig = .ok e1)
    (recs : List (Array Nat)) (henc : e1.encode.1 = .ok recs)
    (os rs : List Nat) (d0 d1 d2 : Decoder)
    (hnewD : Decoder.new staleD kindD schedD k r sb none = .ok d0)
    (hO : addAllOriginal d0 (os.map fun i => (i, orig.getD i #[])) = .ok d1)
    (hR : addAllRecovery d1 (rs.map fun j => (j, recs.getD j #[])) = .ok d2)
    (henough : k ≤ os.length + rs.length) :
    (d2.decode logWalshArr).1 =
      .ok (((List.range k).filter (fun i => decide (i ∉ os))).map (fun i => (i, orig.getD i #[]))) := by
  have hsup : supportsRate rate k r = true := by
    have := Encoder.new_inv hnewE
    obtain ⟨rate', w, hin, hka, hinv⟩ := this
    -- the rate of the constructed encoder is the chosen one and it is supported
    have h1 := Decoder.new_ok_iff.mp ⟨d0, hnewD⟩
    cases kindD <;> simp [chooseRate] at hrD
    · subst hrD; simpa [supports, supportsRate] using h1.1
    · subst hrD; simpa [supports, supportsRate] using h1.1
    · cases hu : useHighRate k r with
      | error e => simp [hu] at hrD
      | ok b =>
        cases b <;> simp [hu] at hrD <;> subst hrD
        · exact default_sub_dedicated_low hu
        · exact default_sub_dedicated_high hu
  exact roundtrip_encode_decode staleE staleD logWalshArr kindE kindD schedE schedD k r sb orig hlen hsz
    hbytes rate hrE hrD e0 e1 hnewE hadd recs henc os rs d0 d1 d2 hnewD hO hR henough
    (fun recv => locator_logs_correct rate k r hsup recv)

/-- non-vacuity: the hypotheses of `roundtrip` are met by a concrete run (k = 2, r = 1, 2-byte
    shards, original 0 lost): the kernel evaluates encoder and decoder constructors and adds -/
example : ∃ e0 d0, Encoder.new (fun L _ => Vector.replicate L 0#16) .high .naive 2 1 2 none = .ok e0 ∧
    Decoder.new (fun L _ => Vector.replicate L 0#16) .high .twoLayer 2 1 2 none = .ok d0 ∧
    chooseRate .high 2 1 = .ok .high := ⟨_, _, rfl, rfl, rfl⟩

/-- the decoders on the REAL flat memory (`HighRateDecoder::decode` / `LowRateDecoder::decode` after
    `decode_begin`, transliterated on `Vec<[u8; 64]>` with the code's views and byte kernels) never panic
    and are, symbol lane by symbol lane, the lane-model decoders to which `decode_high_restores`,
    `decode_low_restores` and `roundtrip` above apply -/
theorem flat_decoders_are_lane_decoders (s : Sched) (lw : Array Nat) (f : Flat) (k r : Nat)
    (recv : Nat → Bool) (hwf : f.WF) (hn : 0 < f.len64) :
    (supportsHigh k r = true → f.count = highDecWorkCount k r →
      ∃ f', flatDecodeHigh s lw f k r recv = some f' ∧ f'.WF ∧
        (f'.absAt f.len64).map (bvecLanes f.len64)
          = decodeHigh s lw k r recv (f.absV.map (bvecLanes f.len64))) ∧
    (supportsLow k r = true → f.count = lowDecWorkCount k r →
      ∃ f', flatDecodeLow s lw f k r recv = some f' ∧ f'.WF ∧
        (f'.absAt f.len64).map (bvecLanes f.len64)
          = decodeLow s lw k r recv (f.absV.map (bvecLanes f.len64))) :=
  flatDecode_lanes s lw f k r recv hwf hn

open RS.RustC RS.SrcC in
/-- the decoder bodies AS TRANSLATED FROM TODAY'S SOURCE (`Gen/SrcCodec.lean`: erasure marking loops,
    `eval_poly`, the multiply / zero phases, ifft – formal derivative – fft, the reveal loop, with their
    `usize` arithmetic) never overflow for a supported configuration and, run with the model's primitives,
    ARE the model decoders `decodeHigh` / `decodeLow` — the functions `decode_high_restores`,
    `decode_low_restores` and `roundtrip` above are about -/
theorem source_decoders_are_model_decoders {V : Type} [ShardAlg V] (s : Sched) (lw : Array Nat) (k r : Nat)
    (recv : Nat → Bool) (mem : Array V) :
    (supportsHigh k r = true → mem.size = highDecWorkCount k r →
      ∃ ops, HighRateDecoder_decode k r mem.size recv = some ops ∧
        (runOps s lw ops mem).mem = decodeHigh s lw k r recv mem) ∧
    (supportsLow k r = true → mem.size = lowDecWorkCount k r →
      ∃ ops, LowRateDecoder_decode k r mem.size recv = some ops ∧
        (runOps s lw ops mem).mem = decodeLow s lw k r recv mem) :=
  ⟨fun hsup hsz => src_decode_high s lw k r hsup recv mem hsz,
   fun hsup hsz => src_decode_low s lw k r hsup recv mem hsz⟩

open RS.SrcU in
/-- the two decoder helpers outside the codec bodies AS TRANSLATED FROM TODAY'S SOURCE (`Gen/SrcUtils.lean`,
    regenerated by `/verif/translate/rs2lean_utils.py` on every run): `utils::eval_poly` — the sequential in-place
    Walsh transform `fwht` with its `while` / `step_by` loops and `u16` index arithmetic, the pointwise
    multiplication by `LOG_WALSH` modulo 65535, the second transform — never panics and is the model's
    `evalPolyWith` for every erasure array of 65536 16-bit entries and every truncated size; and
    `utils::formal_derivative` makes, on up to 65536 shards, exactly the `xor_within` calls whose composition is
    the model's `formalDerivative`.  (The decoders' own bodies are `source_decoders_are_model`.) -/
theorem source_decoder_helpers_are_model {V : Type} [ShardAlg V] (lw er : Array Nat) (t : Nat) (a : Array V)
    (hl : lw.size = 65536) (he : er.size = 65536) (hlw : ∀ i, lw.getD i 0 < 65536)
    (her : ∀ i, er.getD i 0 < 65536) (ht : t ≤ 65536) (ha : a.size ≤ 65536) :
    U_eval_poly lw er t = some (evalPolyWith lw er t) ∧
    (∃ calls, U_formal_derivative a.size = some calls ∧
      calls.foldl (fun (b : Array V) (c : Nat × Nat × Nat) => xorWithin b c.1 c.2.1 c.2.2) a = formalDerivative a) ∧
    (U_xor_within_delegates = true ∧ U_fft_skew_end_delegates = true ∧ U_ifft_skew_end_delegates = true) :=
  ⟨src_eval_poly lw er hl he hlw her t ht, src_formal_derivative a ha, src_delegations⟩

end RS
