/-
  C11 — decoding is independent of arrival order and of surplus shards.
  Order independence is a theorem of the state machine (Proofs/Access.lean).  That a superset of a
  sufficient shard set restores the same BYTES follows from the round-trip theorem of C01 (both
  restore the encoded originals); see DESIGN.md.
-/
import RSVerif.Proofs.Access
import RSVerif.Properties.C01

namespace RS

/-- two successful adds commute (same final state: memory, bitmap, counters) -/
theorem adds_commute (rate : Rate) (w w1 w2 : DecWork) (hinv : DecWork.Inv rate w)
    (i j : Nat) (s t : Array Nat)
    (h1 : w.addOriginal i s = .ok w1) (h2 : w1.addRecovery j t = .ok w2) :
    ∃ w1', w.addRecovery j t = .ok w1' ∧ w1'.addOriginal i s = .ok w2 :=
  addOriginal_addRecovery_comm hinv h1 h2

/-- any permutation / interleaving of a successful sequence of add calls ends in the same state -/
theorem adds_perm (rate : Rate) (w w2 : DecWork) (l l' : List AddOp) (hinv : DecWork.Inv rate w)
    (hp : l.Perm l') (h : w.addAll l = .ok w2) : w.addAll l' = .ok w2 :=
  addAll_perm hinv hp h

/-- … hence decode answers identically -/
theorem decode_perm (lw : Array Nat) (d d1 : Decoder) (hinv : d.Inv) (l l' : List AddOp)
    (hp : l.Perm l') (h : d.addOps l = .ok d1) :
    ∃ d1', d.addOps l' = .ok d1' ∧ d1'.decode lw = d1.decode lw :=
  Decoder.decode_perm hinv hp h

/-- originals that were given are never reported; the result lists exactly the missing ones -/
theorem given_not_restored' (lw : Array Nat) (d d' : Decoder) (out : List (Nat × Array Nat))
    (rate : Rate) (w : DecWork) (hin : d.inner = .some rate w) (h : d.decode lw = (.ok out, d')) :
    out.map (·.1) = (List.range w.k).filter (fun i => !(w.recvAt (w.obase + i))) ∧
    ∀ i, w.recvAt (w.obase + i) = true → i ∉ out.map (·.1) :=
  given_not_restored hin h

/-- all originals given ⇒ empty result, whatever recovery shards accompany them -/
theorem all_given_empty' (lw : Array Nat) (d : Decoder) (rate : Rate) (w : DecWork)
    (hin : d.inner = .some rate w) (hinv : DecWork.Inv rate w) (hall : w.orecv = w.k) :
    d.decode lw = (.ok [], { d with inner := .some rate w.resetReceived }) :=
  decode_all_given hin hinv hall

/-- surplus independence, byte level (corollary of the round-trip theorem C01): with the same
    given originals `os`, ANY two accepted recovery sets that are each sufficient — in particular a
    sufficient set and any superset of it, added in any order — restore exactly the same shards -/
theorem surplus_indep (staleE staleD : Stale) (kindE kindD : Kind) (schedE schedD : Sched)
    (k r sb : Nat) (orig : List (Array Nat))
    (hlen : orig.length = k) (hsz : ∀ i, i < k → (orig.getD i #[]).size = sb)
    (hbytes : ∀ i, i < k → ∀ t, t < sb → (orig.getD i #[]).getD t 0 < 256)
    (rate : Rate) (hrE : chooseRate kindE k r = .ok rate) (hrD : chooseRate kindD k r = .ok rate)
    (e0 e1 : Encoder) (hnewE : Encoder.new staleE kindE schedE k r sb none = .ok e0)
    (hadd : oneShotEncode.addAll e0 orig = .ok e1)
    (recs : List (Array Nat)) (henc : e1.encode.1 = .ok recs)
    (os rs rs' : List Nat) (d0 d1 d2 d2' : Decoder)
    (hnewD : Decoder.new staleD kindD schedD k r sb none = .ok d0)
    (hO : addAllOriginal d0 (os.map fun i => (i, orig.getD i #[])) = .ok d1)
    (hR : addAllRecovery d1 (rs.map fun j => (j, recs.getD j #[])) = .ok d2)
    (hR' : addAllRecovery d1 (rs'.map fun j => (j, recs.getD j #[])) = .ok d2')
    (henough : k ≤ os.length + rs.length) (henough' : k ≤ os.length + rs'.length) :
    (d2.decode logWalshArr).1 = (d2'.decode logWalshArr).1 := by
  rw [roundtrip staleE staleD kindE kindD schedE schedD k r sb orig hlen hsz hbytes rate hrE hrD e0 e1
        hnewE hadd recs henc os rs d0 d1 d2 hnewD hO hR henough,
      roundtrip staleE staleD kindE kindD schedE schedD k r sb orig hlen hsz hbytes rate hrE hrD e0 e1
        hnewE hadd recs henc os rs' d0 d1 d2' hnewD hO hR' henough']

end RS
