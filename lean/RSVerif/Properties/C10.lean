/-
  C10 — one-shot encode()/decode() equal the streaming API, errors included.
  (Model of the repaired code, fix 5c72d3c: without recovery shards the shard size comes from the
  first original shard and the input goes through the streaming decoder as well.)
-/
import RSVerif.Proofs.Access
import RSVerif.Proofs.Errors
import RSVerif.Proofs.SrcOneShotSpec

namespace RS

/-- one-shot encode = create a ReedSolomonEncoder for the size of the first shard, add all, encode -/
theorem oneshot_encode_eq (stale : Stale) (k r : Nat) (l : List (Array Nat)) (hl : l ≠ []) :
    oneShotEncode stale k r l = streamEncode stale k r l :=
  oneShotEncode_eq_stream stale k r l hl

/-- one-shot decode = create a ReedSolomonDecoder for the inferred size, add originals, add recovery
    shards, decode — for every input with at least one shard -/
theorem oneshot_decode_eq (stale : Stale) (lw : Array Nat) (k r : Nat)
    (original recovery : List (Nat × Array Nat)) (hne : original ≠ [] ∨ recovery ≠ []) :
    oneShotDecode stale lw k r original recovery = streamDecode stale lw k r original recovery :=
  oneShotDecode_eq_stream stale lw k r original recovery hne

/-- the remaining inputs return the documented, truthful error -/
theorem oneshot_degenerate (stale : Stale) (lw : Array Nat) (k r : Nat) :
    (supportsDefault k r = false → ∀ l, oneShotEncode stale k r l = .err (.unsupportedShardCount k r)) ∧
    (supportsDefault k r = true → oneShotEncode stale k r [] = .err (.tooFewOriginal k 0)) ∧
    (supportsDefault k r = false → ∀ o rc, oneShotDecode stale lw k r o rc = .err (.unsupportedShardCount k r)) ∧
    (supportsDefault k r = true → oneShotDecode stale lw k r [] [] = .err (.notEnoughShards k 0 0)) :=
  ⟨fun h l => oneShotEncode_unsupported stale k r l h, fun h => oneShotEncode_nil stale k r h,
   fun h o rc => oneShotDecode_unsupported stale lw k r o rc h, fun h => oneShotDecode_nil stale lw k r h⟩

/-- errors of the one-shot functions describe a precondition the input really violates; they never
    panic; with no violated precondition they succeed -/
theorem oneshot_errors_truthful (stale : Stale) (lw : Array Nat) (k r : Nat)
    (l : List (Array Nat)) (o rc : List (Nat × Array Nat)) :
    (∀ er, oneShotEncode stale k r l = .err er → er ∈ truthfulOneShotEncode k r l) ∧
    (∀ why, oneShotEncode stale k r l ≠ .panic why) ∧
    (∀ er, oneShotDecode stale lw k r o rc = .err er → er ∈ truthfulOneShotDecode k r o rc) ∧
    (∀ why, oneShotDecode stale lw k r o rc ≠ .panic why) :=
  ⟨fun er h => oneShotEncode_truthful h, fun why => oneShotEncode_no_panic why,
   fun er h => oneShotDecode_truthful h, fun why => oneShotDecode_no_panic why⟩

/-- the pinned tree's defect D3 does not exist in the model of the repaired code: a duplicate
    original index without recovery shards is an error, not `Ok({})` -/
example : ∃ er, oneShotDecode (fun L _ => Vector.replicate L 0#16) #[] 2 1
    [(0, #[1, 2]), (0, #[3, 4])] [] = .err er := ⟨_, rfl⟩

open RS.SrcW RS.RustO in
/-- `reed_solomon_simd::encode` / `decode` AS TRANSLATED FROM TODAY'S SOURCE (`Gen/SrcOneShot.lean`, regenerated
    by `/verif/translate/rs2lean_oneshot.py` on every run: the functions as sequences of calls of the streaming
    API, iterators as lists) are, for ANY behaviour of `ReedSolomonEncoder` / `ReedSolomonDecoder`, exactly the
    streaming sequences of the property: supports first; the shard size from the first recovery shard, else
    from the first original; every shard added in order through the same `add_*` calls (the first one like the
    others); `encode` / `decode`; the first error of the sequence is the error of the one-shot call -/
theorem source_oneshot_is_streaming {E D : Type} (ea : EncApi E) (da : DecApi D) (k r : Nat)
    (originals : List (Array Nat)) (original recovery : List (Nat × Array Nat)) :
    SrcO.encode ea k r originals = streamingEncode ea k r originals ∧
    SrcO.decode da k r original recovery = streamingDecode da k r original recovery :=
  ⟨src_encode_is_streaming ea k r originals, src_decode_is_streaming da k r original recovery⟩

end RS
