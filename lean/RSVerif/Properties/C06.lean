/-
  C06 — invalid use yields a truthful documented Error; valid use never fails; no panics.
  `Encoder.Inv` / `Decoder.Inv` (Proofs/Inv.lean) is the invariant of reachable states: established
  by every successful constructor, preserved by every call (whatever its outcome).  All arguments
  range over ℕ, i.e. every usize value.  `truthful…` (Model/Spec.lean) is, per call, the list of all
  errors that truthfully describe a violated precondition of that call in that state.
-/
import RSVerif.Proofs.Errors
import RSVerif.Proofs.FlatSpec
import RSVerif.Proofs.SrcWorkSpec

namespace RS

/-- reachable states satisfy the invariant: constructors establish it, every call preserves it -/
theorem inv_reachable (stale : Stale) (lw : Array Nat) (kind : Kind) (sched : Sched) (k r sb : Nat)
    (we : Option EncWork) (wd : Option DecWork) (e : Encoder) (d : Decoder) (shard : Array Nat) (i : Nat) :
    (Encoder.new stale kind sched k r sb we = .ok e → e.Inv) ∧
    (Decoder.new stale kind sched k r sb wd = .ok d → d.Inv) ∧
    (e.Inv → (e.reset stale k r sb).2.Inv ∧ (e.add shard).2.Inv ∧ e.encode.2.Inv) ∧
    (d.Inv → (d.reset stale k r sb).2.Inv ∧ (d.addOriginal i shard).2.Inv ∧
             (d.addRecovery i shard).2.Inv ∧ (d.decode lw).2.Inv) :=
  ⟨Encoder.new_inv, Decoder.new_inv,
   fun h => ⟨Encoder.reset_inv h stale k r sb, Encoder.add_inv h shard, Encoder.encode_inv h⟩,
   fun h => ⟨Decoder.reset_inv h stale k r sb, Decoder.addOriginal_inv h i shard,
             Decoder.addRecovery_inv h i shard, Decoder.decode_inv h lw⟩⟩

/-- no call panics in a reachable state; constructors never panic at all -/
theorem no_panic (stale : Stale) (lw : Array Nat) (kind : Kind) (sched : Sched) (k r sb : Nat)
    (we : Option EncWork) (wd : Option DecWork) (e : Encoder) (d : Decoder) (shard : Array Nat) (i : Nat)
    (he : e.Inv) (hd : d.Inv) (why : String) :
    Encoder.new stale kind sched k r sb we ≠ .panic why ∧ Decoder.new stale kind sched k r sb wd ≠ .panic why ∧
    (e.reset stale k r sb).1 ≠ .panic why ∧ (e.add shard).1 ≠ .panic why ∧ e.encode.1 ≠ .panic why ∧
    e.intoParts ≠ .panic why ∧
    (d.reset stale k r sb).1 ≠ .panic why ∧ (d.addOriginal i shard).1 ≠ .panic why ∧
    (d.addRecovery i shard).1 ≠ .panic why ∧ (d.decode lw).1 ≠ .panic why ∧ d.intoParts ≠ .panic why :=
  ⟨Encoder.new_never_panics stale kind sched k r sb we why, Decoder.new_never_panics stale kind sched k r sb wd why,
   Encoder.reset_never_panics he stale k r sb why, Encoder.add_never_panics he shard why,
   Encoder.encode_never_panics he why, Encoder.intoParts_never_panics he why,
   Decoder.reset_never_panics hd stale k r sb why, Decoder.addOriginal_never_panics hd i shard why,
   Decoder.addRecovery_never_panics hd i shard why, Decoder.decode_never_panics hd lw why,
   Decoder.intoParts_never_panics hd why⟩

/-- every Err truthfully describes a violated precondition (encoder side) -/
theorem errors_truthful_enc (stale : Stale) (kind : Kind) (sched : Sched) (k r sb : Nat) (we : Option EncWork)
    (e : Encoder) (he : e.Inv) (shard : Array Nat) (er : Err) :
    (Encoder.new stale kind sched k r sb we = .err er → er ∈ truthfulConfig kind k r sb) ∧
    ((e.reset stale k r sb).1 = .err er → er ∈ truthfulConfig e.kind k r sb) ∧
    ((e.add shard).1 = .err er → er ∈ truthfulEncAdd e shard) ∧
    (e.encode.1 = .err er → er ∈ truthfulEncode e) :=
  ⟨Encoder.new_truthful, Encoder.reset_truthful he, Encoder.add_truthful he, Encoder.encode_truthful he⟩

/-- … decoder side -/
theorem errors_truthful_dec (stale : Stale) (lw : Array Nat) (kind : Kind) (sched : Sched) (k r sb : Nat)
    (wd : Option DecWork) (d : Decoder) (hd : d.Inv) (shard : Array Nat) (i : Nat) (er : Err) :
    (Decoder.new stale kind sched k r sb wd = .err er → er ∈ truthfulConfig kind k r sb) ∧
    ((d.reset stale k r sb).1 = .err er → er ∈ truthfulConfig d.kind k r sb) ∧
    ((d.addOriginal i shard).1 = .err er → er ∈ truthfulDecAddO d i shard) ∧
    ((d.addRecovery i shard).1 = .err er → er ∈ truthfulDecAddR d i shard) ∧
    ((d.decode lw).1 = .err er → er ∈ truthfulDecode d) :=
  ⟨Decoder.new_truthful, Decoder.reset_truthful hd, Decoder.addOriginal_truthful hd,
   Decoder.addRecovery_truthful hd, Decoder.decode_truthful hd⟩

/-- a call that violates no precondition returns Ok -/
theorem valid_use_succeeds (stale : Stale) (lw : Array Nat) (k r sb : Nat)
    (e : Encoder) (d : Decoder) (he : e.Inv) (hd : d.Inv) (shard : Array Nat) (i : Nat) :
    (truthfulConfig e.kind k r sb = [] → (e.reset stale k r sb).1 = .ok ()) ∧
    (truthfulEncAdd e shard = [] → (e.add shard).1 = .ok ()) ∧
    (truthfulEncode e = [] → ∃ out, e.encode.1 = .ok out) ∧
    (truthfulConfig d.kind k r sb = [] → (d.reset stale k r sb).1 = .ok ()) ∧
    (truthfulDecAddO d i shard = [] → (d.addOriginal i shard).1 = .ok ()) ∧
    (truthfulDecAddR d i shard = [] → (d.addRecovery i shard).1 = .ok ()) ∧
    (truthfulDecode d = [] → ∃ out, (d.decode lw).1 = .ok out) :=
  ⟨Encoder.reset_complete he, Encoder.add_complete he, Encoder.encode_complete he,
   Decoder.reset_complete hd, Decoder.addOriginal_complete hd, Decoder.addRecovery_complete hd,
   Decoder.decode_complete hd⟩

/-- the one-shot functions: truthful errors, no panic -/
theorem oneshot_truthful (stale : Stale) (lw : Array Nat) (k r : Nat) (l : List (Array Nat))
    (o rc : List (Nat × Array Nat)) (er : Err) (why : String) :
    (oneShotEncode stale k r l = .err er → er ∈ truthfulOneShotEncode k r l) ∧
    oneShotEncode stale k r l ≠ .panic why ∧
    (oneShotDecode stale lw k r o rc = .err er → er ∈ truthfulOneShotDecode k r o rc) ∧
    oneShotDecode stale lw k r o rc ≠ .panic why :=
  ⟨oneShotEncode_truthful, oneShotEncode_no_panic why, oneShotDecode_truthful, oneShotDecode_no_panic why⟩

/-- non-vacuity: a reachable decoder state, and an index of usize::MAX is rejected truthfully -/
example : ∃ d : Decoder, Decoder.new (fun L _ => Vector.replicate L 0#16) .high .naive 3 2 64 none = .ok d ∧
    (d.addOriginal 18446744073709551615 #[]).1 = .err (.invalidOriginalIndex 3 18446744073709551615) :=
  ⟨_, rfl, rfl⟩

/-- "never panics", at the level of slice bounds: the exact conditions under which each accessor of
    the flat working memory (`Shards` / `ShardsRefMut`, src/engine/shards.rs, transliterated with Rust's
    slice-bound semantics) does not panic.  Every call site in src/engine and src/rate stays inside them
    (positions `< work_count`, `dist ≥ 1`, disjoint ranges; see `index_safe_high/low` of C08). -/
theorem flat_memory_panic_free_iff (f : Flat) (hwf : f.WF) (hn : 0 < f.len64) (a b c : Nat) :
    (f.shard a ≠ none ↔ a < f.count) ∧
    (f.dist2 a b ≠ none ↔ (0 < b ∧ a + b < f.count)) ∧
    (f.dist4 a b ≠ none ↔ (0 < b ∧ a + 3 * b < f.count)) ∧
    (f.zero a b ≠ none ↔ (a ≤ b ∧ b ≤ f.count)) ∧
    (f.copyWithin a b c ≠ none ↔ (a + c ≤ f.count ∧ b + c ≤ f.count)) ∧
    (f.flat2 a b c ≠ none ↔ ((a + c ≤ b ∧ b + c ≤ f.count) ∨ (b + c ≤ a ∧ a + c ≤ f.count))) ∧
    (f.splitAt a ≠ none ↔ a ≤ f.count) :=
  ⟨Flat.shard_some_iff f hwf hn a, Flat.dist2_some_iff f hwf hn a b, Flat.dist4_some_iff f hwf hn a b,
   Flat.zero_some_iff f hwf hn a b, Flat.copyWithin_some_iff f hwf hn a b c,
   Flat.flat2_some_iff f hwf hn a b c, Flat.splitAt_some_iff f hwf hn a⟩

/-! ### the same, about the SOURCE as translated today (Gen/SrcWork.lean, regenerated on every run) -/

open RS.RustW RS.SrcW in
/-- the translated `add_*_shard` methods: an error names a precondition that is really violated (and the
    checks come in the documented order) -/
theorem source_errors_truthful {σ : Type} (ops : ShardsOps σ) (i : Nat) (sh : Array Nat) (e : WErr) :
    (∀ st st' : EncoderWorkS σ, EncoderWork_add_original_shard ops st sh = some (Res.Err e, st') →
      (e = WErr.TooManyOriginalShards st.original_count ∧ st.original_received_count = st.original_count) ∨
      (e = WErr.DifferentShardSize st.shard_bytes sh.size ∧ sh.size ≠ st.shard_bytes ∧
        st.original_received_count ≠ st.original_count)) ∧
    (∀ st st' : DecoderWorkS σ, DecoderWork_add_original_shard ops st i sh = some (Res.Err e, st') →
      (e = WErr.InvalidOriginalShardIndex st.original_count i ∧ st.original_count ≤ i) ∨
      (e = WErr.DuplicateOriginalShardIndex i ∧ i < st.original_count ∧
        BitSet.get st.received (st.original_base_pos + i) = true) ∨
      (e = WErr.DifferentShardSize st.shard_bytes sh.size ∧ sh.size ≠ st.shard_bytes ∧ i < st.original_count ∧
        BitSet.get st.received (st.original_base_pos + i) = false)) ∧
    (∀ st st' : DecoderWorkS σ, DecoderWork_add_recovery_shard ops st i sh = some (Res.Err e, st') →
      (e = WErr.InvalidRecoveryShardIndex st.recovery_count i ∧ st.recovery_count ≤ i) ∨
      (e = WErr.DuplicateRecoveryShardIndex i ∧ i < st.recovery_count ∧
        BitSet.get st.received (st.recovery_base_pos + i) = true) ∨
      (e = WErr.DifferentShardSize st.shard_bytes sh.size ∧ sh.size ≠ st.shard_bytes ∧ i < st.recovery_count ∧
        BitSet.get st.received (st.recovery_base_pos + i) = false)) :=
  ⟨fun st st' h => srcE_add_err_truthful ops st st' sh e h,
   fun st st' h => srcD_addo_err_truthful ops st st' i sh e h,
   fun st st' h => srcD_addr_err_truthful ops st st' i sh e h⟩

open RS.RustW RS.SrcW in
/-- valid use succeeds, and records exactly what happened: a call that violates no precondition is `Ok`,
    bumps its counter by one, sets exactly its bit and stores the shard at its position; `encode_begin` /
    `decode_begin` decide by the counters alone -/
theorem source_valid_calls_succeed {σ : Type} (ops : ShardsOps σ) (i : Nat) (sh : Array Nat) (m : σ) :
    (∀ st : DecoderWorkS σ, i < st.original_count → BitSet.get st.received (st.original_base_pos + i) = false →
      sh.size = st.shard_bytes → ops.insert st.shards (st.original_base_pos + i) sh = some m →
      st.original_base_pos + i < st.received.size → st.original_received_count + 1 < 18446744073709551616 →
      st.original_base_pos + i < 18446744073709551616 →
      DecoderWork_add_original_shard ops st i sh =
        some (Res.Ok (), { st with shards := m, original_received_count := st.original_received_count + 1,
                                     received := st.received.setIfInBounds (st.original_base_pos + i) true })) ∧
    (∀ st : DecoderWorkS σ, i < st.recovery_count → BitSet.get st.received (st.recovery_base_pos + i) = false →
      sh.size = st.shard_bytes → ops.insert st.shards (st.recovery_base_pos + i) sh = some m →
      st.recovery_base_pos + i < st.received.size → st.recovery_received_count + 1 < 18446744073709551616 →
      st.recovery_base_pos + i < 18446744073709551616 →
      DecoderWork_add_recovery_shard ops st i sh =
        some (Res.Ok (), { st with shards := m, recovery_received_count := st.recovery_received_count + 1,
                                     received := st.received.setIfInBounds (st.recovery_base_pos + i) true })) ∧
    (∀ st : DecoderWorkS σ, st.original_received_count + st.recovery_received_count < 18446744073709551616 →
      DecoderWork_decode_begin ops st = some (
        (if st.original_received_count + st.recovery_received_count < st.original_count then
          Res.Err (WErr.NotEnoughShards st.original_count st.original_received_count st.recovery_received_count)
         else if st.original_received_count = st.original_count then Res.Ok none
         else Res.Ok (some ((), st.original_count, st.recovery_count, ()))), st)) :=
  ⟨fun st a b c d e f g => srcD_addo_ok ops st i sh m a b c d e f g,
   fun st a b c d e f g => srcD_addr_ok ops st i sh m a b c d e f g,
   fun st hb => srcD_begin_spec ops st hb⟩

open RS.RustW RS.SrcW in
/-- the translated source simulates the hand-written model: on states with the same bookkeeping the two
    `add_original_shard` give the same verdict and the same error value, and after an accepted call the
    same counters and the same bitmap -/
theorem source_simulates_model {σ : Type} (ops : ShardsOps σ) (st : DecoderWorkS σ) (w : DecWork) (i : Nat)
    (sh : Array Nat) (hb : DecBook st w) (hu : st.original_base_pos + i < 18446744073709551616) :
    (∀ e st', DecoderWork_add_original_shard ops st i sh = some (Res.Err e, st') →
      w.addOriginal i sh = .err (errOfW e)) ∧
    (∀ e, w.addOriginal i sh = .err e →
      ∃ e', DecoderWork_add_original_shard ops st i sh = some (Res.Err e', st) ∧ errOfW e' = e) ∧
    (∀ st', DecoderWork_add_original_shard ops st i sh = some (Res.Ok (), st') →
      ∀ w', w.addOriginal i sh = .ok w' → DecBook st' w') :=
  srcD_addo_simulates ops st w i sh hb hu

open RS.RustW RS.SrcW in
/-- … and likewise for `add_recovery_shard`, for `decode_begin` against the verdict of the model's `decode`,
    and for `reset` / `reset_received`: the simulation is closed under every bookkeeping step, so along any
    history the translated source and the model stay in the relation `DecBook` and answer alike -/
theorem source_simulates_model_steps {σ : Type} (ops : ShardsOps σ) (stale : Stale) (st : DecoderWorkS σ)
    (w : DecWork) (hb : DecBook st w) :
    (∀ i sh, st.recovery_base_pos + i < 18446744073709551616 →
      (∀ e st', DecoderWork_add_recovery_shard ops st i sh = some (Res.Err e, st') →
        w.addRecovery i sh = .err (errOfW e)) ∧
      (∀ e, w.addRecovery i sh = .err e →
        ∃ e', DecoderWork_add_recovery_shard ops st i sh = some (Res.Err e', st) ∧ errOfW e' = e) ∧
      (∀ st', DecoderWork_add_recovery_shard ops st i sh = some (Res.Ok (), st') →
        ∀ w', w.addRecovery i sh = .ok w' → DecBook st' w')) ∧
    (∀ (lw : Array Nat) (d : Decoder) (rate : Rate), d.inner = .some rate w →
      st.original_received_count + st.recovery_received_count < 18446744073709551616 →
      ((∃ out, (d.decode lw).1 = .ok out) ↔ ∃ v, DecoderWork_decode_begin ops st = some (Res.Ok v, st))) ∧
    (∀ k r sb ob rb wc, sb % 2 = 0 → ob + k < 18446744073709551616 → rb + r < 18446744073709551616 →
      (∃ w', w.reset stale k r sb ob rb wc = .ok w') ∧
      ∃ st', DecoderWork_reset ops st k r sb ob rb wc = some ((), st') ∧
        ∀ w', w.reset stale k r sb ob rb wc = .ok w' → DecBook st' w') ∧
    (∃ st', DecoderWork_reset_received ops st = some ((), st') ∧ DecBook st' w.resetReceived) :=
  ⟨fun i sh hu => srcD_addr_simulates ops st w i sh hb hu,
   fun lw d rate hd hu => (srcD_begin_simulates ops st lw d rate w hd hb hu).2,
   fun k r sb ob rb wc hsb h1 h2 => srcD_reset_simulates ops stale st w k r sb ob rb wc hsb h1 h2 (by rw [hb.2.2.2.2.2.2.2]),
   srcD_reset_received_simulates ops st w hb⟩

open RS.RustW RS.SrcW in
/-- … and it STARTS in the relation: the fresh work objects of today's source (`DecoderWork::new()`, `EncoderWork::new()`,
    `Default::default()` = `new()`, translated on every run — all counters zero, an empty bitmap, the empty memory) hold the
    bookkeeping of the model's fresh work objects, so `source_simulates_model(_steps)` apply from the first call on. -/
theorem source_simulation_starts {σ : Type} (e : σ) :
    DecBook (DecoderWork_new e) ({} : DecWork) ∧ EncBook (EncoderWork_new e) ({} : EncWork) ∧
    DecoderWork_default_is_new = true ∧ EncoderWork_default_is_new = true :=
  src_new_book e

end RS
