/-
  C09 — the default codec is the rate fixed by the selection rule; API layers agree.
-/
import RSVerif.Proofs.Envelope
import RSVerif.Proofs.SrcEnvelopeSpec
import RSVerif.Proofs.SrcDefaultSpec
import RSVerif.Proofs.SrcGlueSpec

namespace RS

/-- the rule: high iff npow2 k > npow2 r, or they are equal and k ≤ r; it depends on nothing else -/
theorem rate_rule' (k r : Nat) (b : Bool) (h : useHighRate k r = .ok b) :
    b = (decide (npow2 k > npow2 r) || (decide (npow2 k = npow2 r) && decide (k ≤ r))) :=
  rate_rule h

open RS.Src RS.Rust in
/-- the same rule for `use_high_rate` AS TRANSLATED FROM TODAY'S SOURCE (Gen/SrcEnvelope.lean, regenerated
    on every run): it never overflows, fails exactly outside the default envelope, and otherwise answers
    `Ok(high)` with `high` given by the rule -/
theorem source_rate_rule (k r : Nat) :
    (∃ v, use_high_rate k r = some v) ∧
    (∀ b, use_high_rate k r = some (Res.Ok b) →
      supportsDefault k r = true ∧
      b = (decide (npow2 k > npow2 r) || (decide (npow2 k = npow2 r) && decide (k ≤ r)))) ∧
    ((∀ b, use_high_rate k r ≠ some (Res.Ok b)) → supportsDefault k r = false) := by
  rw [src_use_high_rate]
  refine ⟨⟨_, rfl⟩, ?_, ?_⟩
  · intro b hb
    cases h : useHighRate k r with
    | error e => simp [h, resOfBool] at hb
    | ok b' =>
      simp only [h, resOfBool, Option.some.injEq, Res.Ok.injEq] at hb
      subst hb
      exact ⟨by simp [supportsDefault, h], rate_rule h⟩
  · intro hne
    cases h : useHighRate k r with
    | error e => simp [supportsDefault, h]
    | ok b' => exact absurd (by simp [h, resOfBool]) (hne b')

/-- a default-flavour encoder is, from construction on, the dedicated encoder of the chosen rate
    (same inner state as the dedicated constructor given the same working memory) -/
theorem default_new_eq_dedicated (stale : Stale) (sched : Sched) (k r sb : Nat) (work : Option EncWork)
    (b : Bool) (h : useHighRate k r = .ok b) :
    (Encoder.new stale .default sched k r sb work).bind (fun e => .ok e.inner)
      = (Encoder.new stale (if b then .high else .low) sched k r sb work).bind (fun e => .ok e.inner) := by
  cases b <;> simp [Encoder.new, chooseRate, h] <;>
    (cases hh : encResetWork stale _ (work.getD {}) k r sb <;> simp [Outcome.bind])

theorem default_new_eq_dedicated_dec (stale : Stale) (sched : Sched) (k r sb : Nat) (work : Option DecWork)
    (b : Bool) (h : useHighRate k r = .ok b) :
    (Decoder.new stale .default sched k r sb work).bind (fun d => .ok d.inner)
      = (Decoder.new stale (if b then .high else .low) sched k r sb work).bind (fun d => .ok d.inner) := by
  cases b <;> simp [Decoder.new, chooseRate, h] <;>
    (cases hh : decResetWork stale _ (work.getD {}) k r sb <;> simp [Outcome.bind])

/-- after a successful reset of a default-flavour encoder the inner codec is the one the rule picks
    for the NEW counts, built on the old working memory — whatever rate was in use before -/
theorem default_reset_rate (stale : Stale) (e : Encoder) (k r sb : Nat) (cur : Rate) (w : EncWork)
    (hk : e.kind = .default) (hi : e.inner = .some cur w) (hok : (e.reset stale k r sb).1 = .ok ()) :
    ∃ b w', useHighRate k r = .ok b ∧
      (e.reset stale k r sb).2.inner = .some (if b then .high else .low) w' ∧
      encResetWork stale (if b then .high else .low) w k r sb = .ok w' := by
  unfold Encoder.reset at hok ⊢
  rw [hi] at hok ⊢
  simp only [hk] at hok ⊢
  cases hu : useHighRate k r with
  | error er => simp [chooseRate, hu] at hok
  | ok b =>
    cases b <;> simp only [chooseRate, hu] at hok ⊢ <;>
    (by_cases hb : badShardSize sb = true
     · simp [hb] at hok
     · simp only [hb] at hok ⊢
       cases hr : encResetWork stale _ w k r sb with
       | ok w' => exact ⟨_, w', rfl, by simp, by simpa using hr⟩
       | err er => simp [hr] at hok
       | panic why => simp [hr] at hok)

/-- add / encode of an encoder object never look at the flavour, only at the inner codec -/
theorem ops_ignore_kind (e : Encoder) (kind' : Kind) (shard : Array Nat) :
    (({ e with kind := kind' } : Encoder).add shard).1 = (e.add shard).1 ∧
    (({ e with kind := kind' } : Encoder).encode).1 = e.encode.1 := by
  constructor
  · unfold Encoder.add; cases e.inner <;> simp <;> (split <;> rfl)
  · unfold Encoder.encode; cases e.inner <;> simp <;> (split <;> rfl)

example : useHighRate 3 2 = .ok true ∧ useHighRate 2 3 = .ok false ∧ useHighRate 2 2 = .ok true ∧
    useHighRate 3 4 = .ok true ∧ useHighRate 4 3 = .ok false := ⟨rfl, rfl, rfl, rfl, rfl⟩

open RS.Rust RS.Src RS.RustD RS.SrcD in
/-- `DefaultRate{Encoder,Decoder}::{new, reset}` AS TRANSLATED FROM TODAY'S SOURCE (`Gen/SrcDefault.lean`) hold,
    whenever they succeed, the dedicated codec of the rate the rule selects, built on the SAME work: `new` fails
    exactly with the rule's / the dedicated validation's error, `reset` exactly with the default validation's -/
theorem source_default_codec_is_rule {W : Type} (hi lo : W → Nat → Nat → Nat → Option (Res W))
    (gh gl : W → Nat → Nat → Nat → W) (hhi : DedicatedOk .high hi gh) (hlo : DedicatedOk .low lo gl)
    (dflt w : W) (work : Option W) (k r sb : Nat) :
    (DefaultRateEncoder_new use_high_rate hi lo dflt k r sb work =
      some (match useHighRate k r with
            | .error _ => Res.Err (SrcErr.UnsupportedShardCount k r)
            | .ok true => (match validate .high k r sb with
                           | .ok () => Res.Ok (DInner.High (gh (work.getD dflt) k r sb))
                           | .error e => Res.Err (srcErrOf e))
            | .ok false => (match validate .low k r sb with
                            | .ok () => Res.Ok (DInner.Low (gl (work.getD dflt) k r sb))
                            | .error e => Res.Err (srcErrOf e)))) ∧
    (DefaultRateEncoder_reset use_high_rate (Rate_validate DefaultRate_supports) hi lo (DInner.Low w) k r sb =
      some (match useHighRate k r, validate .default k r sb with
            | .error _, _ => (Res.Err (SrcErr.UnsupportedShardCount k r), DInner.Low w)
            | .ok _, .error e => (Res.Err (srcErrOf e), DInner.Low w)
            | .ok true, .ok () => (Res.Ok (), DInner.High (gh w k r sb))
            | .ok false, .ok () => (Res.Ok (), DInner.Low (gl w k r sb)))) :=
  ⟨(src_default_new_spec hi lo gh gl hhi hlo dflt work k r sb).1,
   src_default_reset_spec hi lo gh gl hhi hlo _ (Or.inl rfl) (DInner.Low w) w (Or.inr rfl) k r sb⟩

open RS.SrcG RS.RustG in
/-- the API LAYERS of today's source (`Gen/SrcGlue.lean`, regenerated by `/verif/translate/rs2lean_glue.py` on every
    run: the 42 wrapper methods of `ReedSolomonEncoder` / `ReedSolomonDecoder`, the provided trait methods of
    `Rate` / `RateEncoder` / `RateDecoder`, and the forwarding methods of the dedicated and default-rate codecs):
    every one hands ALL its parameters, in order, to the method of the same name of the object it wraps;
    `ReedSolomonEncoder::new` / `ReedSolomonDecoder::new` build the default-rate codec on `DefaultEngine` with no
    recycled work, and `supports` is `DefaultRate::supports` — so the layers cannot disagree about the
    configuration, the rate or the shards; and the twelve associated types (`type Rate = …`, `type RateEncoder = …`,
    `type RateDecoder = …`) stay inside their family, so that the provided `supports` / `validate` of a codec are those of
    its own rate -/
theorem source_api_layers_delegate :
    holds "ReedSolomonEncoder::new" 3 (isRsNew "DefaultRateEncoder") = true ∧
    holds "ReedSolomonDecoder::new" 3 (isRsNew "DefaultRateDecoder") = true ∧
    holds "ReedSolomonEncoder::supports" 2 (isCallDeleg "DefaultRate::supports" 2) = true ∧
    holds "ReedSolomonDecoder::supports" 2 (isCallDeleg "DefaultRate::supports" 2) = true ∧
    holds "ReedSolomonEncoder::add_original_shard" 1 (isMethodDeleg (isSelfField "0") "add_original_shard" 1) = true ∧
    holds "ReedSolomonEncoder::encode" 0 (isMethodDeleg (isSelfField "0") "encode" 0) = true ∧
    holds "ReedSolomonEncoder::reset" 3 (isMethodDeleg (isSelfField "0") "reset" 3) = true ∧
    holds "ReedSolomonDecoder::add_original_shard" 2 (isMethodDeleg (isSelfField "0") "add_original_shard" 2) = true ∧
    holds "ReedSolomonDecoder::add_recovery_shard" 2 (isMethodDeleg (isSelfField "0") "add_recovery_shard" 2) = true ∧
    holds "ReedSolomonDecoder::decode" 0 (isMethodDeleg (isSelfField "0") "decode" 0) = true ∧
    holds "ReedSolomonDecoder::reset" 3 (isMethodDeleg (isSelfField "0") "reset" 3) = true ∧
    holds "DefaultRateEncoder::add_original_shard" 1 (isInnerDeleg "InnerEncoder" "add_original_shard" 1) = true ∧
    holds "DefaultRateEncoder::encode" 0 (isInnerDeleg "InnerEncoder" "encode" 0) = true ∧
    holds "DefaultRateDecoder::add_original_shard" 2 (isInnerDeleg "InnerDecoder" "add_original_shard" 2) = true ∧
    holds "DefaultRateDecoder::add_recovery_shard" 2 (isInnerDeleg "InnerDecoder" "add_recovery_shard" 2) = true ∧
    holds "DefaultRateDecoder::decode" 0 (isInnerDeleg "InnerDecoder" "decode" 0) = true ∧
    holds "Rate::encoder" 5 (isCallDeleg "Self::RateEncoder::new" 5) = true ∧
    holds "Rate::decoder" 5 (isCallDeleg "Self::RateDecoder::new" 5) = true ∧
    (∀ c ∈ ["HighRateEncoder", "LowRateEncoder", "HighRateDecoder", "LowRateDecoder"],
      holds (c ++ "::new") 5 isRateNew = true ∧ holds (c ++ "::reset") 3 isRateReset = true ∧
      holds (c ++ "::into_parts") 0 isParts = true) ∧
    (assocTypes.length = 12 ∧ assocTypes.all assocOk = true) := by
  have h1 := rs_wrappers_delegate
  have h2 := trait_defaults_delegate
  have h3 := dedicated_codecs_delegate
  have h4 := default_codecs_delegate
  refine ⟨h1.2.2.2.1, h1.2.2.2.2.2.2.2.2.2.1, h1.2.2.2.2.1, h1.2.2.2.2.2.2.2.2.2.2, h1.1, h1.2.1, h1.2.2.1,
    h1.2.2.2.2.2.1, h1.2.2.2.2.2.2.1, h1.2.2.2.2.2.2.2.1, h1.2.2.2.2.2.2.2.2.1,
    h4.1, h4.2.1, h4.2.2.2.1, h4.2.2.2.2.1, h4.2.2.2.2.2.1, h2.1, h2.2.1, ?_, assoc_types_stay_in_family⟩
  decide

end RS
