/-
  C13 — encoding is linear over GF(2^16).

  For every configuration (k, r), rate, schedule (engine model) and lane count (shard size):
  the encoder of the model is additive, maps zero to zero and commutes with multiplication of every
  symbol by a field constant.  Proved from the field laws of `gmul` (Proofs/FieldLaws.lean) and the
  homomorphism theorem (Proofs/Hom.lean); helper lemmas live there, only the property theorems here.
-/
import RSVerif.Proofs.FieldLaws
import RSVerif.Proofs.Hom
import RSVerif.Proofs.Lanes
import RSVerif.Model.State

namespace RS
open ShardAlg

/-- the field product on symbols is commutative, associative, distributes over xor, has unit -/
theorem field_laws :
    (∀ a b : Sym, gmul a b = gmul b a) ∧
    (∀ a b c : Sym, gmul (gmul a b) c = gmul a (gmul b c)) ∧
    (∀ a b c : Sym, gmul (a ^^^ b) c = gmul a c ^^^ gmul b c) ∧
    (∀ a : Sym, gmul gone a = a) ∧ (∀ a : Sym, gmul 0 a = 0) :=
  ⟨gmul_comm, gmul_assoc, gmul_xor_left, gmul_one_left, gmul_zero_left⟩

/-- enc(a ⊕ b) = enc(a) ⊕ enc(b), memory-wise, for shards of `L` lanes (any shard size `2L`) -/
theorem encode_add {L : Nat} (rate : Rate) (s : Sched) (k r : Nat)
    (a b : Array (Vector Sym L)) (hs : a.size = b.size) :
    encodeMem rate s k r (Array.zipWith add a b)
      = Array.zipWith add (encodeMem rate s k r a) (encodeMem rate s k r b) := by
  cases rate
  · exact encodeHigh_add s k r a b hs
  · exact encodeLow_add s k r a b hs

/-- enc(c · a) = c · enc(a) for every field constant `c` -/
theorem encode_smul {L : Nat} (rate : Rate) (s : Sched) (k r : Nat) (c : Sym)
    (a : Array (Vector Sym L)) :
    encodeMem rate s k r (a.map (smul c)) = (encodeMem rate s k r a).map (smul c) := by
  cases rate
  · exact encodeHigh_smul gmul_comm c s k r a
  · exact encodeLow_smul gmul_comm c s k r a

/-- enc(0) = 0 -/
theorem encode_zero {L : Nat} (rate : Rate) (s : Sched) (k r : Nat) (a : Array (Vector Sym L)) :
    encodeMem rate s k r (a.map (smul (0#16))) = (encodeMem rate s k r a).map (fun _ => zero) := by
  rw [encode_smul]
  congr 1
  funext v
  exact LawfulShardAlg.zero_smul v

/-- the same three laws for the decoder with a fixed received set (used by C01) -/
theorem decode_add {L : Nat} (rate : Rate) (s : Sched) (lw : Array Nat) (k r : Nat)
    (recv : Nat → Bool) (a b : Array (Vector Sym L)) (hs : a.size = b.size) :
    decodeMem rate s lw k r recv (Array.zipWith add a b)
      = Array.zipWith add (decodeMem rate s lw k r recv a) (decodeMem rate s lw k r recv b) := by
  cases rate
  · exact decodeHigh_add s lw k r recv a b hs
  · exact decodeLow_add s lw k r recv a b hs

/-- non-vacuity: the laws are about a non-trivial algebra (1·x = x and x ⊕ x = 0 with x ≠ 0) -/
example : gmul gone (0x1234#16) = 0x1234#16 ∧ (0x1234#16 : Sym) ≠ 0#16 :=
  ⟨gmul_one_left _, by decide⟩

end RS
