/-
  C16 — independent codec objects can be used concurrently from any threads.
  Model: Model/Lazy.lean (once-cells, threads with frame stacks).  The theorems are instantiated on
  the dependency graph OBSERVED from the running code on every run (Gen/LazyDeps.lean, regenerated
  by `rsharness c16-gen`): any number of threads, any first-touch sets, any schedule.
  What this cannot exhibit: the memory model and the real scheduler (`std::sync::LazyLock` itself is
  trusted); the codec state is a plain value without thread identity, so moving it is the identity.
-/
import RSVerif.Proofs.LazyProofs
import RSVerif.Gen.LazyDeps
import RSVerif.Gen.Statics

namespace RS
open RS.Gen

/-- no schedule deadlocks: every reachable state is finished or has an enabled thread -/
theorem observed_deadlock_free (wants : List (List Nat)) (sched : List Nat) :
    ((LazySys.init observedDeps.length wants).run (depsOfTable observedDeps) sched).allFinished = true ∨
    ∃ t s', ((LazySys.init observedDeps.length wants).run (depsOfTable observedDeps) sched).step
      (depsOfTable observedDeps) t = some s' :=
  table_deadlock_free observed_rank_ok wants sched

/-- no thread ever re-enters a cell it is initialising (LazyLock would panic / deadlock) -/
theorem observed_no_reentrancy (wants : List (List Nat)) (sched : List Nat) (t : Nat) (th : Thread) (c : Nat)
    (h1 : ((LazySys.init observedDeps.length wants).run (depsOfTable observedDeps) sched).threads[t]? = some th)
    (h2 : th.nextForce = some c) :
    ((LazySys.init observedDeps.length wants).run (depsOfTable observedDeps) sched).cell c ≠ .running t :=
  table_no_reentrancy observed_rank_ok wants sched h1 h2

/-- every execution is bounded by the measure and extends to one in which all threads finish -/
theorem observed_terminates (wants : List (List Nat)) (sched : List Nat)
    (h : (LazySys.init observedDeps.length wants).AllEnabled (depsOfTable observedDeps) sched) :
    sched.length ≤ (LazySys.init observedDeps.length wants).measure (depsOfTable observedDeps) ∧
    ∃ ext, (LazySys.init observedDeps.length wants).AllEnabled (depsOfTable observedDeps) (sched ++ ext) ∧
      ((LazySys.init observedDeps.length wants).run (depsOfTable observedDeps) (sched ++ ext)).allFinished = true := by
  obtain ⟨h1, ext, h2, _, h4⟩ := table_every_execution_extends observed_rank_ok wants sched h
  exact ⟨h1, ext, h2, h4⟩

/-- in a finished state every wanted table and all its dependencies are initialised exactly once
    (`done`, nothing `running`): every thread sees the same, fully built tables -/
theorem observed_final_state (wants : List (List Nat)) (hw : ∀ w ∈ wants, ∀ c ∈ w, c < observedDeps.length)
    (sched : List Nat)
    (hfin : ((LazySys.init observedDeps.length wants).run (depsOfTable observedDeps) sched).allFinished = true) :
    (∀ c t, ((LazySys.init observedDeps.length wants).run (depsOfTable observedDeps) sched).cell c ≠ .running t) ∧
    ∀ w ∈ wants, ∀ c ∈ w, ∀ u, DepStar (depsOfTable observedDeps) c u →
      ((LazySys.init observedDeps.length wants).run (depsOfTable observedDeps) sched).cell u = .done :=
  table_final_state observed_rank_ok wants hw sched hfin

/-- the only process-global state of the crate is the five lazily initialised tables (re-checked on every
    run against today's source, see `Gen/Statics.lean`): no other `static`, no `thread_local!`, no
    `UnsafeCell`, no `static mut` — so moving objects between threads moves ALL of their state -/
theorem source_global_state_is_the_tables :
    RS.Gen.statics.map Prod.fst = [0, 1, 3, 2, 4] ∧ (∀ s ∈ RS.Gen.statics, s.2 = 0) ∧
    RS.Gen.threadLocals = 0 ∧ RS.Gen.unsafeCells = 0 ∧ RS.Gen.staticMuts = 0 := by decide

end RS
