/-
  C14 — the default engine runs only SIMD code the CPU reports and picks the best.
  The quantifier is finite (4 feature subsets on x86, 2 on AArch64): exhaustive case analysis of the
  decision model; the tie to the code is the exhaustive mask sweep with the ISA trace hook.
-/
import RSVerif.Proofs.AllocSelect
import RSVerif.Gen.Statics

namespace RS

/-- x86: what a round on the default engine executes is legal, most capable, the same for the
    constructor and for `eval_poly`, and portable exactly when nothing is reported -/
theorem select_x86 (avx2 ssse3 : Bool) :
    legalX86 avx2 ssse3 (selectNewX86 avx2 ssse3) = true ∧
    legalX86 avx2 ssse3 (selectEvalX86 avx2 ssse3) = true ∧
    selectNewX86 avx2 ssse3 = selectEvalX86 avx2 ssse3 ∧
    (∀ i, legalX86 avx2 ssse3 i = true → rank i ≤ rank (selectNewX86 avx2 ssse3)) ∧
    (∀ i, i ∈ executedX86 avx2 ssse3 → legalX86 avx2 ssse3 i = true) ∧
    executedX86 avx2 ssse3 = (if selectNewX86 avx2 ssse3 = .portable then [] else [selectNewX86 avx2 ssse3]) ∧
    (selectNewX86 avx2 ssse3 = .portable ↔ (avx2 = false ∧ ssse3 = false)) :=
  ⟨selectNewX86_legal avx2 ssse3, selectEvalX86_legal avx2 ssse3, selectNewX86_eq_eval avx2 ssse3,
   fun i => selectNewX86_best avx2 ssse3 i, fun i h => executedX86_legal avx2 ssse3 i h,
   executedX86_eq avx2 ssse3, selectNewX86_portable_iff avx2 ssse3⟩

/-- AArch64 -/
theorem select_arm (neon : Bool) :
    legalArm neon (selectNewArm neon) = true ∧ legalArm neon (selectEvalArm neon) = true ∧
    selectNewArm neon = selectEvalArm neon ∧
    (∀ i, legalArm neon i = true → rank i ≤ rank (selectNewArm neon)) ∧
    (∀ i, i ∈ executedArm neon → legalArm neon i = true) ∧
    (selectNewArm neon = .portable ↔ neon = false) :=
  ⟨selectNewArm_legal neon, selectEvalArm_legal neon, selectNewArm_eq_eval neon,
   fun i => selectNewArm_best neon i, fun i h => executedArm_legal neon i h,
   selectNewArm_portable_iff neon⟩

/-- what "code compiled for ISA X" means is decided by the `#[target_feature(enable = …)]` attributes; the
    selection model above (and the ISA trace, which the functions report by hand) ASSUME that every such
    function in `engine_<x>.rs` is compiled for exactly `<x>` and is named `…_<x>`.  `Gen/Statics.lean`
    (regenerated from today's source on every run) lists the twelve attributes; this re-checks the assumption:
    four functions per SIMD engine, each compiled for its own engine's ISA and nothing else -/
theorem source_target_features_match_their_engine :
    (∀ t ∈ RS.Gen.targetFeatures, t.1 = t.2.1 ∧ t.2.2 = true) ∧
    (RS.Gen.targetFeatures.filter (fun t => t.1 == 2)).length = 4 ∧
    (RS.Gen.targetFeatures.filter (fun t => t.1 == 1)).length = 4 ∧
    (RS.Gen.targetFeatures.filter (fun t => t.1 == 4)).length = 4 := by decide

end RS
