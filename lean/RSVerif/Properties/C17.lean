/-
  C17 — working space is reused in place; rounds and non-growing resets never allocate.
  Model bookkeeping: `heldBlocks` = high-water mark of 64-byte blocks requested, `allocs` = number of
  growing (re)allocations.  Trusted: `Vec::resize` within capacity does not allocate.
-/
import RSVerif.Proofs.AllocSelect
import RSVerif.Proofs.SrcWorkSpec
import RSVerif.Proofs.SrcWorkNoResize

namespace RS

/-- adding shards, encode / decode, reading and dropping results never allocate (every outcome) -/
theorem round_no_alloc (e : Encoder) (d : Decoder) (lw : Array Nat) (shard : Array Nat) (i : Nat) :
    ((e.add shard).2.allocs = e.allocs ∧ (e.add shard).2.held = e.held) ∧
    (e.encode.2.allocs = e.allocs ∧ e.encode.2.held = e.held) ∧
    Decoder.SameAlloc d (d.addOriginal i shard).2 ∧ Decoder.SameAlloc d (d.addRecovery i shard).2 ∧
    Decoder.SameAlloc d (d.decode lw).2 :=
  ⟨Encoder.add_alloc e shard, Encoder.encode_alloc e, Decoder.addOriginal_alloc d i shard,
   Decoder.addRecovery_alloc d i shard, Decoder.decode_alloc lw d⟩

/-- reset allocates exactly when the new configuration needs more than is held -/
theorem reset_alloc_iff_grows (stale : Stale) (e : Encoder) (k r sb : Nat) (cur rate : Rate) (w : EncWork)
    (hi : e.inner = .some cur w) (hr : rateFor e.kind cur k r = .ok rate)
    (hok : (e.reset stale k r sb).1 = .ok ()) :
    (e.reset stale k r sb).2.allocs =
      (if blocksNeeded (encWorkCount rate k r) sb > w.heldBlocks then w.allocs + 1 else w.allocs) ∧
    (e.reset stale k r sb).2.held = max w.heldBlocks (blocksNeeded (encWorkCount rate k r) sb) :=
  Encoder.reset_allocs hi hr hok

/-- … in particular never when the need is within what is held (any outcome of the call) -/
theorem reset_no_alloc_of_le (stale : Stale) (e : Encoder) (k r sb : Nat) (cur rate : Rate) (w : EncWork)
    (hi : e.inner = .some cur w) (hr : rateFor e.kind cur k r = .ok rate)
    (hle : blocksNeeded (encWorkCount rate k r) sb ≤ w.heldBlocks) :
    (e.reset stale k r sb).2.allocs = w.allocs ∧ (e.reset stale k r sb).2.held = w.heldBlocks :=
  Encoder.reset_no_alloc_of_le hi hr hle

/-- handing the working space to a new codec of any flavour (`into_parts` / `new(Some(work))`) -/
theorem renew_alloc_iff_grows (stale : Stale) (kind : Kind) (sched : Sched) (k r sb : Nat) (w : EncWork)
    (rate : Rate) (e' : Encoder) (hr : chooseRate kind k r = .ok rate)
    (h : Encoder.new stale kind sched k r sb (some w) = .ok e') :
    e'.allocs = (if blocksNeeded (encWorkCount rate k r) sb > w.heldBlocks then w.allocs + 1 else w.allocs) ∧
    e'.held = max w.heldBlocks (blocksNeeded (encWorkCount rate k r) sb) :=
  Encoder.new_allocs hr h

/-- along any history the number of allocations is the number of configuration changes that
    exceeded the high-water mark at that time -/
theorem allocs_count (stale : Stale) (ops : List EncOp) (e e' : Encoder) (h : EncOp.run stale e ops = some e') :
    e'.allocs = e.allocs + EncOp.growCount stale e ops ∧ e.allocs ≤ e'.allocs ∧ e.held ≤ e'.held :=
  EncOp.run_allocs ops e e' h

/-- a history in which no configuration needs more than the first one: exactly one allocation
    (encoders; decoders: one for the shard memory and one for the bitmap) -/
theorem one_allocation (stale : Stale) (kind : Kind) (sched : Sched) (k r sb B C : Nat)
    (e0 e' : Encoder) (ops : List EncOp) (d0 d' : Decoder) (dops : List DecOp) :
    (Encoder.new stale kind sched k r sb none = .ok e0 → encNewNeed kind k r sb = some B →
      EncOp.BoundedCfg B kind ops → EncOp.run stale e0 ops = some e' → e'.allocs = 1 ∧ e'.held = B) ∧
    (Decoder.new stale kind sched k r sb none = .ok d0 → decNewNeed kind k r sb = some (B, C) →
      DecOp.BoundedCfg B C kind dops → DecOp.run stale d0 dops = some d' →
      d'.allocs = 1 ∧ d'.bitAllocs = 1 ∧ d'.held = B ∧ d'.bitLen = C) :=
  ⟨EncOp.history_one_alloc_cfg, DecOp.history_one_alloc_cfg⟩

/-! ### the same, about the SOURCE as translated today (Gen/SrcWork.lean, regenerated on every run) -/

open RS.RustW RS.SrcW in
/-- the translated `reset` methods: every counter is a function of the arguments alone, every bit is off,
    the index bitmap keeps its length unless it is shorter than the highest position in use (it is never
    re-created), and the shard memory goes through `Shards::resize` once -/
theorem source_reset {σ : Type} (ops : ShardsOps σ) (k r sb ob rb wc : Nat) (hsb : sb % 2 = 0)
    (h1 : ob + k < 18446744073709551616) (h2 : rb + r < 18446744073709551616) :
    (∀ st : DecoderWorkS σ, DecoderWork_reset ops st k r sb ob rb wc = some ((),
      { original_count := k, recovery_count := r, shard_bytes := sb, original_base_pos := ob,
        recovery_base_pos := rb, original_received_count := 0, recovery_received_count := 0,
        received := Array.replicate (max st.received.size (max (ob + k) (rb + r))) false,
        shards := ops.resize st.shards wc ((sb + 63) / 64) })) ∧
    (∀ st : EncoderWorkS σ, EncoderWork_reset ops st k r sb wc = some ((),
      { original_count := k, recovery_count := r, shard_bytes := sb, original_received_count := 0,
        shards := ops.resize st.shards wc ((sb + 63) / 64) })) :=
  ⟨fun st => srcD_reset_spec ops st k r sb ob rb wc hsb h1 h2, fun st => srcE_reset_spec ops st k r sb wc hsb⟩

open RS.RustW RS.SrcW in
/-- ROUNDS NEVER RESIZE, in today's source (`Gen/SrcWork.lean`): give the abstract shard memory a counter that only
    `Shards::resize` — the one operation that may allocate — can change (`CountsResizes`); then every translated
    bookkeeping method other than `reset` (adds, `encode_begin` / `decode_begin`, the accessors, the implicit
    `reset_received`, `undo_last_chunk_encoding`) returns with the counter where it was, whatever it answers, and the
    decoder's bitmap keeps its length: the only call sites of `resize` / `grow` are the ones `source_reset` describes. -/
theorem source_rounds_never_resize {σ : Type} (ops : ShardsOps (σ × Nat)) (h : CountsResizes ops)
    (e e' : EncoderWorkS (σ × Nat)) (d d' : DecoderWorkS (σ × Nat)) :
    ((∀ sh r, EncoderWork_add_original_shard ops e sh = some (r, e') → e'.shards.2 = e.shards.2) ∧
     (∀ r, EncoderWork_encode_begin ops e = some (r, e') → e'.shards.2 = e.shards.2) ∧
     (∀ i r, EncoderWork_recovery ops e i = some (r, e') → e'.shards.2 = e.shards.2) ∧
     (∀ r, EncoderWork_reset_received ops e = some (r, e') → e'.shards.2 = e.shards.2) ∧
     (∀ r, EncoderWork_undo_last_chunk_encoding ops e = some (r, e') → e'.shards.2 = e.shards.2)) ∧
    ((∀ i sh r, DecoderWork_add_original_shard ops d i sh = some (r, d') →
        d'.shards.2 = d.shards.2 ∧ d'.received.size = d.received.size) ∧
     (∀ i sh r, DecoderWork_add_recovery_shard ops d i sh = some (r, d') →
        d'.shards.2 = d.shards.2 ∧ d'.received.size = d.received.size) ∧
     (∀ r, DecoderWork_decode_begin ops d = some (r, d') →
        d'.shards.2 = d.shards.2 ∧ d'.received.size = d.received.size) ∧
     (∀ i r, DecoderWork_restored_original ops d i = some (r, d') →
        d'.shards.2 = d.shards.2 ∧ d'.received.size = d.received.size) ∧
     (∀ r, DecoderWork_reset_received ops d = some (r, d') →
        d'.shards.2 = d.shards.2 ∧ d'.received.size = d.received.size) ∧
     (∀ r, DecoderWork_undo_last_chunk_encoding ops d = some (r, d') →
        d'.shards.2 = d.shards.2 ∧ d'.received.size = d.received.size)) :=
  ⟨src_encoder_round_never_resizes ops h e e', src_decoder_round_never_resizes ops h d d'⟩

end RS
