/-
  C05 — results never depend on what the codec object did before.
  `stale : (L : Nat) → Nat → Vector Sym L` is the ARBITRARY content of the working memory at the
  moment a configuration is installed (left-over bytes of earlier rounds, earlier configurations,
  recycled work spaces: `Shards::resize` never clears).  Proofs in Proofs/Stale.lean.
-/
import RSVerif.Proofs.Stale

namespace RS

/-- an encoder round (new, adds, encode) answers identically for any two stale contents and any
    recycled working spaces — errors included -/
theorem encoder_round_stale_indep'' (stale stale' : Stale) (kind : Kind) (s : Sched) (k r sb : Nat)
    (work work' : Option EncWork) (shards : List (Array Nat)) :
    encoderRound stale kind s k r sb work shards = encoderRound stale' kind s k r sb work' shards :=
  encoder_round_stale_indep' stale stale' kind s k r sb work work' shards

/-- the same for a decoder round with adds in any order -/
theorem decoder_round_stale_indep'' (stale stale' : Stale) (lw : Array Nat) (kind : Kind) (s : Sched)
    (k r sb : Nat) (work' : Option DecWork) (adds : List DecAdd) :
    decoderRound stale lw kind s k r sb none adds = decoderRound stale' lw kind s k r sb work' adds :=
  decoder_round_stale_indep stale stale' lw kind s k r sb work' adds

/-- any finite history of rounds on one object (resets to arbitrary configurations, rate switches of
    the default flavour, failed rounds ending the run) equals the same rounds on fresh objects -/
theorem history_indep' (stale stale' : Stale) (e : Encoder) (h : e.Wf) (cs : List RoundSpec) :
    e.runRounds stale cs = freshRounds stale' e.kind e.sched cs :=
  history_indep stale stale' e h cs

/-- data path: the encoder's result only depends on the `k` inserted originals, not on any other
    position of the working memory (every position read was inserted or zero-filled this round) -/
theorem encode_reads_only_originals {V : Type} [ShardAlg V] (s : Sched) (k r : Nat) (mem mem' : Array V) :
    (supportsHigh k r = true → mem.size = highEncWorkCount k r → mem'.size = mem.size →
      (∀ p, p < k → rd mem p = rd mem' p) → encodeHigh s k r mem = encodeHigh s k r mem') ∧
    (supportsLow k r = true → mem.size = lowEncWorkCount k r → mem'.size = mem.size →
      (∀ p, p < k → rd mem p = rd mem' p) → encodeLow s k r mem = encodeLow s k r mem') :=
  ⟨encodeHigh_congr s k r mem mem', encodeLow_congr s k r mem mem'⟩

/-- data path: the decoder's result only depends on the received shard positions -/
theorem decode_reads_only_received {V : Type} [ShardAlg V] (s : Sched) (lw : Array Nat) (k r : Nat)
    (recv : Nat → Bool) (mem mem' : Array V) (hs : mem'.size = mem.size) :
    ((∀ p, recv p = true → (decide (p < r) || decide (npow2 r ≤ p) && decide (p < npow2 r + k)) = true →
        rd mem p = rd mem' p) → decodeHigh s lw k r recv mem = decodeHigh s lw k r recv mem') ∧
    ((∀ p, recv p = true → (decide (p < k) || decide (npow2 k ≤ p) && decide (p < npow2 k + r)) = true →
        rd mem p = rd mem' p) → decodeLow s lw k r recv mem = decodeLow s lw k r recv mem') :=
  ⟨decodeHigh_congr s lw k r recv mem mem' hs, decodeLow_congr s lw k r recv mem mem' hs⟩

/-- the one-shot functions do not depend on it either -/
theorem oneshot_stale_indep (stale stale' : Stale) (lw : Array Nat) (k r : Nat)
    (l : List (Array Nat)) (o rc : List (Nat × Array Nat)) :
    oneShotEncode stale k r l = oneShotEncode stale' k r l ∧
    oneShotDecode stale lw k r o rc = oneShotDecode stale' lw k r o rc :=
  ⟨oneShotEncode_stale_indep stale stale' k r l, oneShotDecode_stale_indep stale stale' lw k r o rc⟩

end RS
