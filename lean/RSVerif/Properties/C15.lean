/-
  C15 — engine primitives and tables implement their mathematical contracts.
  (The claim about the crate's tables is the exhaustive entry-by-entry correspondence run by the
  check; the model's tables are characterised in Proofs/TableSpec.lean.)
-/
import RSVerif.Proofs.Kernels
import RSVerif.Proofs.Walsh
import RSVerif.Proofs.Sched
import RSVerif.Proofs.FftEval
import RSVerif.Proofs.GF16
import RSVerif.Proofs.WalshSpec
import RSVerif.Proofs.TableSpec
import RSVerif.Proofs.LocatorSpec
import RSVerif.Proofs.TableInitSpec
import RSVerif.Proofs.SrcTablesFinal
import RSVerif.Gen.SrcWiring

namespace RS
open ShardAlg

/-- mul: every table-driven kernel multiplies by `g^log_m` for all 2^32 (symbol, log_m) pairs;
    `log_m = 65535` multiplies by `g^65535 = 1` -/
theorem mul_spec (m : Nat) (x : Sym) :
    mulNibble (fun y => mulLog y m) x = gmul (gexp m) x ∧
    mulShuffle (fun y => mulLog y m) x = gmul (gexp m) x ∧
    gexp 65535 = gone :=
  ⟨(mul_kernels_eq_mulLog m x).1, (mul_kernels_eq_mulLog m x).2, gexp_65535⟩

/-- GF(2^16) with `gmul` is a field, the generator has order 65535, exp is a homomorphism and is
    injective on 0 … 65534: exp and log are mutually inverse bijections -/
theorem exp_log_spec :
    (∀ a b, a + b < 2 ^ 64 → gexp (a + b) = gmul (gexp a) (gexp b)) ∧
    (∀ a b, a < 65535 → b < 65535 → gexp a = gexp b → a = b) ∧
    (∀ x : Sym, x ≠ 0 → ∃ k, k < 65535 ∧ gexp k = x) ∧
    (∀ a : Sym, a ≠ 0 → gmul a (ginv a) = gone) :=
  ⟨fun a b h => gexp_add a b h, fun _ _ ha hb h => gexp_injOn ha hb h, exists_log, gmul_ginv⟩

/-- mod-65535 arithmetic with 0 and 65535 both meaning zero -/
theorem mod_arith (x y : Nat) (hx : x < 65536) (hy : y < 65536) :
    (addMod x y < 65536 ∧ addMod x y % 65535 = (x + y) % 65535) ∧
    (subMod x y < 65536 ∧ (subMod x y + y) % 65535 = x % 65535) :=
  ⟨addMod_spec x y hx hy, subMod_spec x y hx hy⟩

/-- fft: the first `truncated_size` outputs are those of the full transform, for any input -/
theorem fft_trunc' {V : Type} [ShardAlg V] (s s' : Sched) (a : Array V) (pos size n trunc delta : Nat)
    (hs : size = 2 ^ n) (ht : trunc ≤ size) (hp : pos + size ≤ a.size) (i : Nat) (hi : i < trunc) :
    rd (fft s a pos size trunc delta) (pos + i) = rd (fft s' a pos size size delta) (pos + i) :=
  fft_trunc s s' a pos size n trunc delta hs ht hp hi

/-- ifft: all outputs are those of the full transform whenever the inputs beyond `truncated_size`
    are zero -/
theorem ifft_trunc' {V : Type} [ShardAlg V] [LawfulShardAlg V] (s s' : Sched) (a : Array V)
    (pos size n trunc delta : Nat) (hs : size = 2 ^ n) (ht : trunc ≤ size) (hp : pos + size ≤ a.size)
    (hz : ∀ i, trunc ≤ i → i < size → rd a (pos + i) = zero) :
    ifft s a pos size trunc delta = ifft s' a pos size size delta :=
  ifft_trunc s s' a pos size n trunc delta hs ht hp hz

/-- ifft is the exact inverse of fft (and conversely) -/
theorem ifft_fft_inverse' {V : Type} [ShardAlg V] [LawfulShardAlg V] (a : Array V) (pos size n delta : Nat)
    (hs : size = 2 ^ n) (hp : pos + size ≤ a.size) :
    ifft .naive (fft .naive a pos size size delta) pos size size delta = a ∧
    fft .naive (ifft .naive a pos size size delta) pos size size delta = a :=
  ⟨ifft_fft_inverse a pos size n delta hs hp, fft_ifft_inverse a pos size n delta hs hp⟩

/-- fft turns LCH-basis coefficients into the values of that polynomial at the points
    `skew_delta + i` (chunk-aligned skew offset); ifft yields the coefficients of the interpolant -/
theorem fft_evaluates (a : Array Sym) (pos n delta : Nat) (hn : n ≤ 16) (hd : 2 ^ n ∣ delta)
    (hb : delta + 2 ^ n ≤ 65536) (hp : pos + 2 ^ n ≤ a.size) (i : Nat) (hi : i < 2 ^ n) :
    rd (fft .naive a pos (2 ^ n) (2 ^ n) delta) (pos + i)
      = lchSum a pos (2 ^ n) (BitVec.ofNat 16 (delta + i)) ∧
    lchSum (ifft .naive a pos (2 ^ n) (2 ^ n) delta) pos (2 ^ n) (BitVec.ofNat 16 (delta + i))
      = rd a (pos + i) :=
  ⟨fft_eval a pos n delta hn hd hb hp i hi, ifft_eval a pos n delta hn hd hb hp i hi⟩

/-- eval_poly is identical for every `truncated_size` that covers all non-zero entries -/
theorem evalPoly_trunc_indep' (lw erasures : Array Nat) (t t' : Nat) (hs : erasures.size = 65536)
    (hz : ∀ i, t ≤ i → i < 65536 → erasures.getD i 0 = 0) (htt : t ≤ t') :
    evalPolyWith lw erasures t' = evalPolyWith lw erasures t :=
  evalPoly_trunc_mono lw erasures t t' hs hz htt

/-- eval_poly is the Walsh–Hadamard convolution, modulo 65535, of the indicator with the table that
    `LOG_WALSH` is the transform of: for every field point x, Σ_{j marked} lg(x ⊕ j) -/
theorem evalPoly_is_convolution (erasures lg : Array Nat) (trunc : Nat) (hse : erasures.size = 65536)
    (hsl : lg.size = 65536)
    (hbe : ∀ i, i < 65536 → erasures.getD i 0 = 0 ∨ erasures.getD i 0 = 1)
    (hbl : ∀ i, i < 65536 → lg.getD i 0 < 65536)
    (hz : ∀ i, trunc ≤ i → i < 65536 → erasures.getD i 0 = 0) (x : Nat) (hx : x < 65536) :
    (((evalPolyWith (fwht lg 65536) erasures trunc).getD x 0 : Nat) : ZMod 65535) =
      ∑ j ∈ (Finset.range 65536).filter (fun j => erasures.getD j 0 = 1),
        ((lg.getD (x ^^^ j) 0 : Nat) : ZMod 65535) :=
  evalPoly_spec_indicator erasures lg trunc hse hsl hbe hbl hz x hx

/-- … hence, with the model's tables, eval_poly returns for every field point x the discrete log of
    the product of (x ⊕ j) over all marked j ≠ x: the erasure locator at an unmarked point, its
    derivative at a marked one -/
theorem evalPoly_is_locator_log (er : Array Nat) (trunc : Nat) (hs : er.size = 65536)
    (h01 : ∀ i, i < 65536 → er.getD i 0 = 0 ∨ er.getD i 0 = 1)
    (hz : ∀ i, trunc ≤ i → i < 65536 → er.getD i 0 = 0) (x : Nat) (hx : x < 65536) :
    (evalPolyWith logWalshArr er trunc).getD x 0 < 65536 ∧
    (⟨gexp ((evalPolyWith logWalshArr er trunc).getD x 0)⟩ : GF16) =
      ∏ u ∈ ((Finset.range 65536).filter (fun u => er.getD u 0 = 1)).erase x, (pt x - pt u) := by
  rw [logWalshArr_def]
  exact locator_of_logs er trunc hs h01 hz x hx

/-- the model's tables equal their definitions: exp[k] = g^k, log inverts exp with log[0] = 65535,
    LOG_WALSH is the transform of log with entry 0 cleared, skew[i] = log of the twiddle element
    (65535 exactly where the element is zero) -/
theorem tables_spec :
    (∀ k, k < 65536 → expArr.getD k 0#16 = gexp k) ∧
    logArr.getD 0 0 = 65535 ∧ (∀ k, k < 65535 → logArr.getD (gexp k).toNat 0 = k) ∧
    (∀ x : Sym, x ≠ 0 → gexp (lgArr.getD x.toNat 0) = x) ∧
    logWalshArr = fwht lgArr 65536 ∧
    (∀ i, skewLog i = 65535 ↔ skewElem i = 0) ∧
    (∀ i, skewElem i ≠ 0 → gexp (skewLog i) = skewElem i ∧ skewLog i < 65535) :=
  ⟨expArr_get, logArr_zero, logArr_gexp, gexp_lg, logWalshArr_def, skewLog_eq_65535_iff, skewLog_spec⟩

/-- the table CONSTRUCTION algorithms of src/engine/tables.rs, transliterated (Model/TableInit.lean:
    LFSR + Cantor-basis conversion, incremental subspace-polynomial evaluation for the skew table,
    FWHT of the log table, nibble products), produce exactly the tables of the definitions -/
theorem table_construction_correct :
    (∀ k, k < 65536 → initExpLog.1.getD k 0 = (gexp k).toNat) ∧
    initExpLog.2 = logArr ∧
    (∀ i, i < 65535 → (initSkew initExpLog.1 initExpLog.2).getD i 0 = skewLog i) ∧
    initLogWalsh initExpLog.2 = logWalshArr ∧
    (∀ logm k i, logm ≤ 65535 → k < 4 → i < 16 →
      initMul16Entry initExpLog.1 initExpLog.2 logm k i
        = (lut16 (fun y => gmul (gexp logm) y) k i).toNat) :=
  ⟨initExpLog_exp, initExpLog_log_eq, initSkew_initExpLog, initLogWalsh_initExpLog,
   fun logm k i h1 h2 h3 => initMul16Entry_initExpLog logm k i h1 h2 h3⟩

open RS.SrcU in
/-- the table INITIALISERS and the integer primitives AS TRANSLATED FROM TODAY'S SOURCE (`Gen/SrcUtils.lean`,
    regenerated by `/verif/translate/rs2lean_utils.py` on every run from src/engine/tables.rs, utils.rs, fwht.rs and
    the constants of src/engine.rs — `initialize_exp_log`, `initialize_log_walsh`, `initialize_skew`,
    `tables::mul`, `add_mod`, `sub_mod`, the sequential in-place `fwht`, `eval_poly`; every loop, shift, xor, index,
    checked `usize` / `u16` / `u32` operation): they never panic and compute exactly the transliterations of
    Model/TableInit.lean and the Walsh model — hence, by `table_construction_correct` and `tables_spec`, the
    tables of the definitions: `exp[k] = g^k`, `log` its inverse, `skew[i] = log (skewElem i)`, `LOG_WALSH` -/
theorem source_tables_and_integer_code :
    CANTOR_BASIS = (cantorBasis.map (·.toNat)).toArray ∧
    U_initialize_exp_log = some initExpLog ∧
    U_initialize_log_walsh initExpLog.2 = some logWalshArr ∧
    U_initialize_skew initExpLog.1 initExpLog.2 = some (initSkew initExpLog.1 initExpLog.2) ∧
    (∀ i, i < 65535 → (initSkew initExpLog.1 initExpLog.2).getD i 0 = skewLog i) ∧
    (∀ x logm, x < 65536 → logm < 65536 →
      U_mul x logm initExpLog.1 initExpLog.2 = some (tmul initExpLog.1 initExpLog.2 x logm)) ∧
    (∀ x y, x < 65536 → y < 65536 → U_add_mod x y = some (addMod x y) ∧ U_sub_mod x y = some (subMod x y)) ∧
    (∀ (data : Array Nat) (m : Nat), data.size = 65536 → (∀ i, data.getD i 0 < 65536) → m ≤ 65536 →
      U_fwht data m = some (fwht data m)) ∧
    (∀ (er : Array Nat) (t : Nat), er.size = 65536 → (∀ i, er.getD i 0 < 65536) → t ≤ 65536 →
      U_eval_poly logWalshArr er t = some (evalPolyWith logWalshArr er t)) := by
  have hu := initExpLog_u16
  have hlw := logWalshArr_u16
  refine ⟨src_cantor_basis, src_initialize_exp_log, ?_, ?_, fun i hi => initSkew_initExpLog i hi, ?_, ?_, ?_, ?_⟩
  · have h := src_initialize_log_walsh_of initExpLog.2 initExpLog_log_size hu.2
      (fun d hs hd => src_fwht d hs hd 65536 (Nat.le_refl _))
    rwa [initLogWalsh_initExpLog] at h
  · exact src_initialize_skew _ _ initExpLog_exp_size initExpLog_log_size hu.1 hu.2
  · intro x logm hx hm
    exact src_mul _ _ initExpLog_exp_size initExpLog_log_size hu.2 x logm hx hm
  · intro x y hx hy
    exact ⟨src_add_mod x y hx hy, src_sub_mod x y hx hy⟩
  · intro data m hs hd hm
    exact src_fwht data hs hd m hm
  · intro er t hs hd ht
    exact src_eval_poly logWalshArr er hlw.1 hs hlw.2 hd t ht

/-- the MULTIPLICATION TABLES of today's source (`Gen/SrcMul.lean`, regenerated by `/verif/translate/rs2lean_mul.py` on
    every run from `initialize_mul16` / `initialize_mul128`, run on the constructed `exp` / `log` tables): never a
    panic; every `Mul16` entry `[log_m][k][i]` is the nibble product `(i << 4k) ⊗ g^log_m`, and the 16-byte rows
    `lo[k]` / `hi[k]` of every `Mul128` entry are exactly `lutLo` / `lutHi` of the multiplier `g^log_m` — the table
    parameter under which C03's `source_kernels_are_field_butterflies` and `mul_spec` are stated -/
theorem source_mul_tables :
    (∃ t, RS.SrcU.U_initialize_mul16 initExpLog.1 initExpLog.2 = some t ∧
      ∀ logm k i, logm ≤ 65535 → k < 4 → i < 16 →
        t.getD ((logm * 4 + k) * 16 + i) 0 = (lut16 (fun y => gmul (gexp logm) y) k i).toNat) ∧
    (∃ lo hi, RS.SrcU.U_initialize_mul128 initExpLog.1 initExpLog.2 = some (lo, hi) ∧
      ∀ logm k, logm ≤ 65535 → k < 4 →
        rowOfTable lo logm k = lutLo (fun y => gmul (gexp logm) y) k ∧
        rowOfTable hi logm k = lutHi (fun y => gmul (gexp logm) y) k) :=
  src_mul_tables

/-- the WIRING of the tables in today's source (`Gen/SrcWiring.lean`): each `LazyLock` static is built by the initialiser of
    `source_tables_and_integer_code` / `source_mul_tables`, and each engine's `new()` takes exactly the tables its
    kernels are proved correct with: Naive the `exp` / `log` halves of `EXP_LOG`, NoSimd `MUL16`, the three SIMD
    engines `MUL128`, all of them `SKEW` -/
theorem source_table_wiring :
    RS.SrcW2.tableInit = [("EXP_LOG", "initialize_exp_log"), ("LOG_WALSH", "initialize_log_walsh"),
      ("MUL16", "initialize_mul16"), ("MUL128", "initialize_mul128"), ("SKEW", "initialize_skew")] ∧
    RS.SrcW2.engineTables = [("Naive", [("exp", "EXP_LOG.exp"), ("log", "EXP_LOG.log"), ("skew", "SKEW")]),
      ("NoSimd", [("mul16", "MUL16"), ("skew", "SKEW")]), ("Ssse3", [("mul128", "MUL128"), ("skew", "SKEW")]),
      ("Avx2", [("mul128", "MUL128"), ("skew", "SKEW")]), ("Neon", [("mul128", "MUL128"), ("skew", "SKEW")])] := by
  decide

end RS
