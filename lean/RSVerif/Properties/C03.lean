/-
  C03 — all engines are bit-identical, end to end and primitive by primitive.
  Engine models = (multiply kernel) × (butterfly schedule): Naive = exp/log kernel + one-layer
  schedule; NoSimd = nibble-table kernel + two-layer schedule; Ssse3/Avx2/Neon = byte-shuffle kernel +
  two-layer schedule.  `eval_poly` is one shared definition.
-/
import RSVerif.Proofs.Sched
import RSVerif.Proofs.Kernels
import RSVerif.Proofs.EnginesAgree
import RSVerif.Proofs.Lanes
import RSVerif.Proofs.SeqEquiv
import RSVerif.Proofs.SimdSpec
import RSVerif.Proofs.SimdBlockSpec
import RSVerif.Proofs.FlatSpec
import RSVerif.Proofs.FlatEngineSpec
import RSVerif.Proofs.SrcEngineSpec
import RSVerif.Proofs.SrcKernelSpec
import RSVerif.Proofs.SrcShardsSpec
import RSVerif.Proofs.SrcGlueSpec
import RSVerif.Proofs.SrcKernelFlat
import RSVerif.Gen.Statics

namespace RS
open ShardAlg

/-- the nibble-table (NoSimd) and byte-shuffle (SIMD) kernels compute `x ⊗ g^log_m`
    for all 2^32 pairs -/
theorem mul_kernels_agree' (m : Nat) (x : Sym) :
    mulNibble (fun y => gmul (gexp m) y) x = gmul (gexp m) x ∧
    mulShuffle (fun y => gmul (gexp m) y) x = gmul (gexp m) x :=
  mul_kernels_agree m x

/-- the exp/log kernel (Naive) computes the same, for tables satisfying the table contract
    (proved for the model's tables in Proofs/TableSpec.lean, compared entry by entry with the crate's
    on every run of C15) -/
theorem mul_explog_agrees (exp : Nat → Sym) (log : Sym → Nat)
    (hc : (∀ x, x ≠ 0 → exp (log x) = x) ∧
      (∀ a b, a ≤ 65535 → b ≤ 65535 → exp (addMod a b) = gmul (exp a) (exp b)) ∧ (∀ x, log x ≤ 65535))
    (x : Sym) (m : Nat) (hm : m ≤ 65535) : mulExpLog exp log x m = gmul x (exp m) :=
  mulExpLog_spec exp log hc x m hm

/-- fft: both schedules give the same first `truncated_size` outputs, for every position, size 2^n,
    truncated size and skew offset -/
theorem sched_agree_fft {V : Type} [ShardAlg V] (a : Array V) (pos size n trunc delta : Nat)
    (hs : size = 2 ^ n) (ht : trunc ≤ size) (hp : pos + size ≤ a.size) (i : Nat) (hi : i < trunc) :
    rd (fft .naive a pos size trunc delta) (pos + i) = rd (fft .twoLayer a pos size trunc delta) (pos + i) :=
  fft_sched_agree a pos size n trunc delta hs ht hp hi

/-- ifft: when the inputs beyond `truncated_size` are zero both schedules give identical arrays -/
theorem sched_agree_ifft {V : Type} [ShardAlg V] [LawfulShardAlg V] (a : Array V)
    (pos size n trunc delta : Nat) (hs : size = 2 ^ n) (ht : trunc ≤ size) (hp : pos + size ≤ a.size)
    (hz : ∀ i, trunc ≤ i → i < size → rd a (pos + i) = zero) :
    ifft .naive a pos size trunc delta = ifft .twoLayer a pos size trunc delta :=
  ifft_sched_agree a pos size n trunc delta hs ht hp hz

/-- a primitive changes only the shards inside the range it was asked to transform -/
theorem frame {V : Type} [ShardAlg V] (s : Sched) (a : Array V) (pos size trunc delta p : Nat)
    (h : p < pos ∨ pos + size ≤ p) :
    rd (fft s a pos size trunc delta) p = rd a p ∧ rd (ifft s a pos size trunc delta) p = rd a p ∧
    (fft s a pos size trunc delta).size = a.size ∧ (ifft s a pos size trunc delta).size = a.size :=
  ⟨fft_frame s a pos size trunc delta h, ifft_frame s a pos size trunc delta h,
   fft_size s a pos size trunc delta, ifft_size s a pos size trunc delta⟩

/-- end to end: what an encoder exposes does not depend on the schedule (engine) -/
theorem engines_agree_encode (s s' : Sched) (rate : Rate) (w : EncWork) (hinv : EncWork.Inv rate w) :
    ({ w with mem := encodeMem rate s w.k w.r w.mem }).recoveryList
      = ({ w with mem := encodeMem rate s' w.k w.r w.mem }).recoveryList :=
  recoveryList_sched_indep s s' rate w hinv

/-- end to end: what a decoder exposes does not depend on the schedule (engine) -/
theorem engines_agree_decode (s s' : Sched) (rate : Rate) (lw : Array Nat) (w : DecWork)
    (hinv : DecWork.Inv rate w) :
    ({ w with mem := decodeMem rate s lw w.k w.r w.recvAt w.mem }).restoredList
      = ({ w with mem := decodeMem rate s' lw w.k w.r w.recvAt w.mem }).restoredList :=
  restoredList_sched_indep s s' rate lw w hinv

/-- … at the level of the objects: changing the engine of an encoder / decoder changes no answer -/
theorem engines_agree_objects (lw : Array Nat) (e : Encoder) (d : Decoder) (s' : Sched)
    (he : e.Inv) (hd : d.Inv) :
    ({ e with sched := s' } : Encoder).encode.1 = e.encode.1 ∧
    (({ d with sched := s' } : Decoder).decode lw).1 = (d.decode lw).1 :=
  ⟨Encoder.encode_sched_indep e s' he, Decoder.decode_sched_indep lw d s' hd⟩

/-- the loop nests of the engines, transliterated statement by statement (in-place, sequential, in
    source order: Model/EngineSeq.lean), compute exactly the pointwise layer model on which every other
    theorem is stated — for both schedules, fft and ifft, every position, size, truncated size, offset -/
theorem loops_eq_model {V : Type} [ShardAlg V] (a : Array V) (pos n trunc delta : Nat)
    (ht : trunc ≤ 2 ^ n) (h : pos + 2 ^ n ≤ a.size) :
    naiveFftSeq a pos n trunc delta = fft .naive a pos (2 ^ n) trunc delta ∧
    naiveIfftSeq a pos n trunc delta = ifft .naive a pos (2 ^ n) trunc delta ∧
    twoFftSeq a pos n trunc delta = fft .twoLayer a pos (2 ^ n) trunc delta ∧
    twoIfftSeq a pos n trunc delta = ifft .twoLayer a pos (2 ^ n) trunc delta :=
  ⟨naiveFftSeq_eq a pos n trunc delta ht h, naiveIfftSeq_eq a pos n trunc delta ht h,
   twoFftSeq_eq a pos n trunc delta ht h, twoIfftSeq_eq a pos n trunc delta ht h⟩

/-- the SIMD multiply kernel (`mul_128` of engine_ssse3.rs, line by line on 16-byte vectors with the
    semantics of `pshufb`, `psrlq`, `pand`, `pxor`) multiplies every one of its 16 lanes by `g^m` -/
theorem simd_kernel_spec (m : Nat) (valueLo valueHi : V128) (i : Fin 16) :
    symOf (mul128 (fun y => gmul (gexp m) y) valueLo valueHi).1
          (mul128 (fun y => gmul (gexp m) y) valueLo valueHi).2 i
      = gmul (gexp m) (symOf valueLo valueHi i) :=
  mul128_gmul m valueLo valueHi i

/-- the per-block kernels of ALL FOUR engine families, transliterated from engine_nosimd.rs,
    engine_ssse3.rs, engine_avx2.rs (two 128-bit lanes, broadcast tables) and engine_neon.rs
    (`vqtbl1q_u8`, per-byte shift) — multiply, multiply-add, fft butterfly, ifft butterfly on a
    64-byte block — are byte-for-byte the same function, for ANY table contents -/
theorem simd_block_kernels_agree (mulf : Sym → Sym) (x y : Block) :
    (ssse3MulBlock mulf x = nosimdMulBlock mulf x ∧ avx2MulBlock mulf x = nosimdMulBlock mulf x ∧
      neonMulBlock mulf x = nosimdMulBlock mulf x) ∧
    (ssse3MulAdd mulf x y = nosimdMulAdd mulf x y ∧ avx2MulAdd mulf x y = nosimdMulAdd mulf x y ∧
      neonMulAdd mulf x y = nosimdMulAdd mulf x y) ∧
    (ssse3Fftb mulf x y = nosimdFftb mulf x y ∧ avx2Fftb mulf x y = nosimdFftb mulf x y ∧
      neonFftb mulf x y = nosimdFftb mulf x y) ∧
    (ssse3Ifftb mulf x y = nosimdIfftb mulf x y ∧ avx2Ifftb mulf x y = nosimdIfftb mulf x y ∧
      neonIfftb mulf x y = nosimdIfftb mulf x y) :=
  ⟨kernels_agree_block mulf x, muladd_agree_block mulf x y, fftb_agree_block mulf x y,
   ifftb_agree_block mulf x y⟩

/-- … and with the tables of the multiplier `g^m` each of them is the field butterfly on every one of
    the 32 symbols of the block (so the block kernels refine `fftBfly` / `ifftBfly`) -/
theorem simd_block_butterflies (m : Nat) (x y : Block) (i : Fin 32) :
    let f := fun y => gmul (gexp m) y
    (blockSym (avx2Fftb f x y).1 i = blockSym x i ^^^ gmul (gexp m) (blockSym y i) ∧
     blockSym (avx2Fftb f x y).2 i = blockSym y i ^^^ (blockSym x i ^^^ gmul (gexp m) (blockSym y i))) ∧
    (blockSym (avx2Ifftb f x y).1 i = blockSym x i ^^^ gmul (gexp m) (blockSym y i ^^^ blockSym x i) ∧
     blockSym (avx2Ifftb f x y).2 i = blockSym y i ^^^ blockSym x i) :=
  butterflies_gmul m x y i _ _ (Or.inr (Or.inl rfl)) (Or.inr (Or.inl rfl))

/-- the butterflies on the REAL flat memory (`Vec<[u8; 64]>`, `dist2_mut(pos, dist)` with its index
    arithmetic and `split_at_mut`s, byte-level xor / multiply, write-back) are the position-level
    butterflies of the loop model, exactly when the views exist (`0 < dist`, `pos + dist < count`) -/
theorem flat_butterflies_refine (c : Sym) (f : Flat) (hwf : f.WF) (hn : 0 < f.len64) (pos dist : Nat)
    (hd : 0 < dist) (hp : pos + dist < f.count) :
    (∃ f', f.fftBfly c pos dist = some f' ∧ f'.WF ∧ f'.absAt f.len64 = RS.fftBfly c f.absV pos (pos + dist)) ∧
    (∃ f', f.ifftBfly c pos dist = some f' ∧ f'.WF ∧ f'.absAt f.len64 = RS.ifftBfly c f.absV pos (pos + dist)) := by
  obtain ⟨f1, h1, _, _, w1, a1⟩ := Flat.fftBfly_refines c f hwf hn pos dist hd hp
  obtain ⟨f2, h2, _, _, w2, a2⟩ := Flat.ifftBfly_refines c f hwf hn pos dist hd hp
  exact ⟨⟨f1, h1, w1, a1⟩, ⟨f2, h2, w2, a2⟩⟩

/-- whole transforms on the real flat memory: `Engine::fft` / `Engine::ifft` of BOTH engine families
    (naive loops with `dist2_mut`; two-layer loops with one `dist4_mut` per radix-4 group, final odd
    layer with `dist2_mut`, the ifft's last layer through `split_at_mut` / `xor_within`), transliterated
    on `Vec<[u8; 64]>`, never panic inside `[pos, pos + size)` and compute exactly the model transform
    on the shards seen as block vectors -/
theorem flat_transforms_refine (s : Sched) (f : Flat) (hwf : f.WF) (hn : 0 < f.len64)
    (pos e trunc delta : Nat) (ht : trunc ≤ 2 ^ e) (hp : pos + 2 ^ e ≤ f.count) :
    (∃ f', flatFft s f pos (2 ^ e) trunc delta = some f' ∧ f'.WF ∧
      f'.absAt f.len64 = fft s f.absV pos (2 ^ e) trunc delta) ∧
    (∃ f', flatIfft s f pos (2 ^ e) trunc delta = some f' ∧ f'.WF ∧
      f'.absAt f.len64 = ifft s f.absV pos (2 ^ e) trunc delta) := by
  obtain ⟨f1, h1, w1, _, _, a1⟩ := flatFft_refines s f hwf hn pos e trunc delta ht hp
  obtain ⟨f2, h2, w2, _, _, a2⟩ := flatIfft_refines s f hwf hn pos e trunc delta ht hp
  exact ⟨⟨f1, h1, w1, a1⟩, ⟨f2, h2, w2, a2⟩⟩

open RS.RustE RS.SrcE RS.SrcEng in
/-- the transform loop nests AS TRANSLATED FROM TODAY'S SOURCE (`Gen/SrcEngine.lean`, regenerated by
    `/verif/translate/rs2lean_engine.py` on every run: `Naive::{fft, ifft}` and `{NoSimd, Ssse3, Avx2, Neon}::
    {fft_private, ifft_private}` with their helpers inlined — nested loops, `usize` arithmetic, skew-table
    indexes, views, `GF_MODULUS` shortcuts — evaluated to the program of shard operations they perform):
    the four two-layer engines have literally the same program, and for every size `2^n ≤ 65536`, truncated
    size, position and skew offset no `usize` operation overflows, no loop runs out of fuel, no
    `debug_assert!` fails, and the program, run on any shard array, IS the model transform of that schedule -/
theorem source_engine_loops_are_model {V : Type} [ShardAlg V] [LawfulShardAlg V] (a : Array V)
    (pos n trunc delta : Nat) (ht : trunc ≤ 2 ^ n) (hn : n ≤ 16)
    (hb : pos + 2 ^ n + delta ≤ 9223372036854775808) (h : pos + 2 ^ n ≤ a.size) :
    (Ssse3_fft = NoSimd_fft ∧ Avx2_fft = NoSimd_fft ∧ Ssse3_ifft = NoSimd_ifft ∧ Avx2_ifft = NoSimd_ifft ∧
      Neon_fft = NoSimd_fft ∧ Neon_ifft = NoSimd_ifft) ∧
    (∃ ops, Naive_fft pos (2 ^ n) trunc delta skewZero = some ops ∧
      runE ops a = fft .naive a pos (2 ^ n) trunc delta) ∧
    (∃ ops, Naive_ifft pos (2 ^ n) trunc delta skewZero = some ops ∧
      runE ops a = ifft .naive a pos (2 ^ n) trunc delta) ∧
    (∃ ops, NoSimd_fft pos (2 ^ n) trunc delta skewZero = some ops ∧
      runE ops a = fft .twoLayer a pos (2 ^ n) trunc delta) ∧
    (∃ ops, NoSimd_ifft pos (2 ^ n) trunc delta skewZero = some ops ∧
      runE ops a = ifft .twoLayer a pos (2 ^ n) trunc delta) :=
  ⟨⟨ssse3_fft_eq, avx2_fft_eq, ssse3_ifft_eq, avx2_ifft_eq, neon_fft_eq, neon_ifft_eq⟩,
   src_naive_fft_model a pos n trunc delta ht hn hb h, src_naive_ifft_model a pos n trunc delta ht hn hb h,
   src_two_fft_model a pos n trunc delta ht hn hb h, src_two_ifft_model a pos n trunc delta ht hn hb h⟩

open RS.SrcK RS.RustK in
/-- the per-chunk KERNELS AS TRANSLATED FROM TODAY'S SOURCE (`Gen/SrcKernel.lean`, regenerated by
    `/verif/translate/rs2lean_kernel.py` on every run: `mul_128` / `mul_256` / `muladd_*` / `fftb_*` / `ifftb_*` /
    `mul_*` / `fft_butterfly_partial` / `ifft_butterfly_partial` of Ssse3, Avx2 (with `LutAvx2::from`) and Neon —
    intrinsic by intrinsic, loads and stores through `x_ptr.add(k)` — and `mul` / `mul_add` / the partial
    butterflies of NoSimd with `utils::xor`): on ANY two lists of 64-byte blocks (any lengths) and for ANY table
    contents the four engine families compute the same bytes — the pair kernel of NoSimd applied to the common
    prefix, the rest untouched — and with the tables of `g^m` that is the field butterfly in every symbol. -/
theorem source_kernels_agree (mulf : Sym → Sym) (x y : List Block) :
    (Ssse3_mul (lutLo mulf) (lutHi mulf) x = NoSimd_mul (lut16 mulf) x ∧
     Avx2_mul (lutLo mulf) (lutHi mulf) x = NoSimd_mul (lut16 mulf) x ∧
     Neon_mul (lutLo mulf) (lutHi mulf) x = NoSimd_mul (lut16 mulf) x ∧
     NoSimd_mul (lut16 mulf) x = x.map (nosimdMulBlock mulf)) ∧
    (Ssse3_fft_butterfly_partial (lutLo mulf) (lutHi mulf) x y = NoSimd_fft_butterfly_partial (lut16 mulf) x y ∧
     Avx2_fft_butterfly_partial (lutLo mulf) (lutHi mulf) x y = NoSimd_fft_butterfly_partial (lut16 mulf) x y ∧
     Neon_fft_butterfly_partial (lutLo mulf) (lutHi mulf) x y = NoSimd_fft_butterfly_partial (lut16 mulf) x y ∧
     NoSimd_fft_butterfly_partial (lut16 mulf) x y = zipUpd2 (nosimdFftb mulf) x y) ∧
    (Ssse3_ifft_butterfly_partial (lutLo mulf) (lutHi mulf) x y = NoSimd_ifft_butterfly_partial (lut16 mulf) x y ∧
     Avx2_ifft_butterfly_partial (lutLo mulf) (lutHi mulf) x y = NoSimd_ifft_butterfly_partial (lut16 mulf) x y ∧
     Neon_ifft_butterfly_partial (lutLo mulf) (lutHi mulf) x y = NoSimd_ifft_butterfly_partial (lut16 mulf) x y ∧
     NoSimd_ifft_butterfly_partial (lut16 mulf) x y = zipUpd2 (nosimdIfftb mulf) x y) ∧
    Utils_xor x y = zipUpd1 blockXor x y := by
  have hk : ∀ b, ssse3MulBlock mulf b = nosimdMulBlock mulf b ∧ avx2MulBlock mulf b = nosimdMulBlock mulf b ∧
      neonMulBlock mulf b = nosimdMulBlock mulf b := fun b => kernels_agree_block mulf b
  have hf : ssse3Fftb mulf = nosimdFftb mulf ∧ avx2Fftb mulf = nosimdFftb mulf ∧ neonFftb mulf = nosimdFftb mulf :=
    ⟨funext fun a => funext fun b => (fftb_agree_block mulf a b).1,
     funext fun a => funext fun b => (fftb_agree_block mulf a b).2.1,
     funext fun a => funext fun b => (fftb_agree_block mulf a b).2.2⟩
  have hi : ssse3Ifftb mulf = nosimdIfftb mulf ∧ avx2Ifftb mulf = nosimdIfftb mulf ∧ neonIfftb mulf = nosimdIfftb mulf :=
    ⟨funext fun a => funext fun b => (ifftb_agree_block mulf a b).1,
     funext fun a => funext fun b => (ifftb_agree_block mulf a b).2.1,
     funext fun a => funext fun b => (ifftb_agree_block mulf a b).2.2⟩
  refine ⟨⟨?_, ?_, ?_, nosimd_mul mulf x⟩, ⟨?_, ?_, ?_, nosimd_fft_partial mulf x y⟩,
    ⟨?_, ?_, ?_, nosimd_ifft_partial mulf x y⟩, utils_xor x y⟩
  · rw [ssse3_mul, nosimd_mul]; exact List.map_congr_left fun b _ => (hk b).1
  · rw [avx2_mul, nosimd_mul]; exact List.map_congr_left fun b _ => (hk b).2.1
  · rw [neon_mul, nosimd_mul]; exact List.map_congr_left fun b _ => (hk b).2.2
  · rw [ssse3_fft_partial, nosimd_fft_partial, hf.1]
  · rw [avx2_fft_partial, nosimd_fft_partial, hf.2.1]
  · rw [neon_fft_partial, nosimd_fft_partial, hf.2.2]
  · rw [ssse3_ifft_partial, nosimd_ifft_partial, hi.1]
  · rw [avx2_ifft_partial, nosimd_ifft_partial, hi.2.1]
  · rw [neon_ifft_partial, nosimd_ifft_partial, hi.2.2]

open RS.SrcK RS.RustK in
/-- the fifth family: `Naive::mul` / `Naive::mul_add` of today's source (the exp / log kernel `tables::mul` applied to
    the symbol made of byte `i` and byte `i + 32` of every chunk) — with the multiplier `g^m` they compute, on any
    lists of blocks, the same bytes as the NoSimd kernels (hence as all SIMD families, `source_kernels_agree`) -/
theorem source_naive_kernels_agree (m : Nat) (x y : List Block) :
    let f := fun s => gmul (gexp m) s
    Naive_mul f x = NoSimd_mul (lut16 f) x ∧ Naive_mul_add f x y = NoSimd_mul_add (lut16 f) x y := by
  intro f
  have hn := mulNibble_funext f (gmul_gexp_add m)
  constructor
  · rw [naive_mul, nosimd_mul]
    exact List.map_congr_left fun b _ => (nosimdMulBlock_eq f (gmul_gexp_add m) b).symm
  · rw [naive_mul_add, nosimd_mul_add]
    have : (fun a b => blockXor a (specMulBlock f b)) = nosimdMulAdd f := by
      funext a b; rw [nosimdMulAdd_spec, hn]
    rw [this]

open RS.SrcK in
/-- … and with the tables of the multiplier `g^m` the translated block kernels of every family are the field
    butterflies `x' = x ⊕ g^m ⊗ y, y' = y ⊕ x'` (fft) and `y' = y ⊕ x, x' = x ⊕ g^m ⊗ y'` (ifft) on each of the
    32 symbols of a block -/
theorem source_kernels_are_field_butterflies (m : Nat) (x y : Block) (i : Fin 32) :
    let f := fun y => gmul (gexp m) y
    ∀ fft ∈ [Ssse3_fftb_128 (lutLo f) (lutHi f) x y, Avx2_fftb_256 x y (Avx2_from (lutLo f) (lutHi f)),
             Neon_fftb_128 (lutLo f) (lutHi f) x y],
    ∀ ifft ∈ [Ssse3_ifftb_128 (lutLo f) (lutHi f) x y, Avx2_ifftb_256 x y (Avx2_from (lutLo f) (lutHi f)),
              Neon_ifftb_128 (lutLo f) (lutHi f) x y],
    (blockSym fft.1 i = blockSym x i ^^^ gmul (gexp m) (blockSym y i) ∧
     blockSym fft.2 i = blockSym y i ^^^ (blockSym x i ^^^ gmul (gexp m) (blockSym y i))) ∧
    (blockSym ifft.1 i = blockSym x i ^^^ gmul (gexp m) (blockSym y i ^^^ blockSym x i) ∧
     blockSym ifft.2 i = blockSym y i ^^^ blockSym x i) := by
  intro f fft hfft ifft hifft
  refine butterflies_gmul m x y i fft ifft ?_ ?_
  · simp only [List.mem_cons, List.mem_nil_iff, or_false] at hfft
    rcases hfft with h | h | h
    · exact Or.inl (h.trans (ssse3_fftb f x y))
    · exact Or.inr (Or.inl (h.trans (avx2_fftb f x y)))
    · exact Or.inr (Or.inr (Or.inl (h.trans (neon_fftb f x y))))
  · simp only [List.mem_cons, List.mem_nil_iff, or_false] at hifft
    rcases hifft with h | h | h
    · exact Or.inl (h.trans (ssse3_ifftb f x y))
    · exact Or.inr (Or.inl (h.trans (avx2_ifftb f x y)))
    · exact Or.inr (Or.inr (Or.inl (h.trans (neon_ifftb f x y))))

open RS.SrcS RS.RustS in
/-- the INDEX ARITHMETIC of the flat working memory AS TRANSLATED FROM TODAY'S SOURCE (`Gen/SrcShards.lean`,
    regenerated by `/verif/translate/rs2lean_shards.py` on every run: `dist2_mut`, `dist4_mut`, `flat2_mut`,
    `copy_within`, `zero`, `split_at_mut`, `new`, the four `Index` / `IndexMut` impls — slices as (offset, length)
    views, Rust's slice / split panics as `none`, checked `usize`): for every memory of fewer than 2^64 blocks and
    all arguments, each accessor panics exactly where the flat model does and hands out exactly the block ranges
    the model reads and writes — the ranges `flat_butterflies_refine` / `flat_transforms_refine` are proved on. -/
theorem source_shards_are_flat_model (f : Flat) (hs : f.data.size < 18446744073709551616) (a b c : Nat) :
    ((ShardsRefMut_dist2_mut (hdr f) a b).map (fun v => (v.1.get f.data, v.2.get f.data)) = f.dist2 a b ∧
      ∀ x y, ShardsRefMut_dist2_mut (hdr f) a b = some (x, y) →
        x = ⟨a * f.len64, f.len64⟩ ∧ y = ⟨a * f.len64 + b * f.len64, f.len64⟩) ∧
    ((ShardsRefMut_dist4_mut (hdr f) a b).map
        (fun v => (v.1.get f.data, v.2.1.get f.data, v.2.2.1.get f.data, v.2.2.2.get f.data)) = f.dist4 a b) ∧
    ((ShardsRefMut_flat2_mut (hdr f) a b c).map (fun v => (v.1.get f.data, v.2.get f.data)) = f.flat2 a b c ∧
      ∀ x y, ShardsRefMut_flat2_mut (hdr f) a b c = some (x, y) →
        x = ⟨a * f.len64, c * f.len64⟩ ∧ y = ⟨b * f.len64, c * f.len64⟩) ∧
    ((ShardsRefMut_copy_within (hdr f) a b c).map
        (fun p => ({ f with data := moveRange f.data p.1.off p.2 p.1.len } : Flat)) = f.copyWithin a b c) ∧
    ((ShardsRefMut_zero (hdr f) ⟨.included a, .excluded b⟩).map
        (fun v => ({ f with data := fillRange f.data v.off (v.off + v.len) } : Flat)) = f.zero a b) ∧
    ((ShardsRefMut_zero (hdr f) ⟨.included a, .unbounded⟩).map
        (fun v => ({ f with data := fillRange f.data v.off (v.off + v.len) } : Flat)) = f.zeroFrom a) ∧
    ((ShardsRefMut_split_at_mut (hdr f) a).map
        (fun p => ((⟨p.1.shard_count, p.1.shard_len_64, p.1.data.get f.data⟩ : Flat),
                   (⟨p.2.shard_count, p.2.shard_len_64, p.2.data.get f.data⟩ : Flat))) = f.splitAt a) ∧
    (a + 1 < 18446744073709551616 →
      (ShardsRefMut_index (hdr f) a).map (fun v => v.get f.data) = f.shard a ∧
      ShardsRefMut_index_mut (hdr f) a = ShardsRefMut_index (hdr f) a ∧
      Shards_index (hdr f) a = ShardsRefMut_index (hdr f) a ∧
      Shards_index_mut (hdr f) a = ShardsRefMut_index (hdr f) a) :=
  ⟨src_dist2_mut f hs a b, (src_dist4_mut f hs a b).1, src_flat2_mut f hs a b c, src_copy_within f hs a b c,
   (src_zero f hs a b).1, (src_zero f hs a b).2, (src_split_at_mut f hs a).1,
   fun hi => ⟨(src_index f hs a hi).1, (src_index f hs a hi).2.1, (src_index f hs a hi).2.2.1,
     (src_index f hs a hi).2.2.2.1⟩⟩

open RS.SrcS RS.RustS RS.SrcK RS.RustK in
/-- SOURCE SLICING + SOURCE KERNELS COMPOSED: `dist2_mut` as translated from today's `shards.rs`, followed by the partial
    (i)fft butterfly as translated from today's `engine_nosimd.rs` / `utils.rs` on the blocks the two views denote,
    written back through the views, IS the flat model's butterfly `Flat.fftBfly (g^m)` / `Flat.ifftBfly (g^m)` — for every
    memory of fewer than 2^64 blocks, every multiplier `g^m`, every `pos`, `dist`, and `none` (a slicing panic) exactly
    where the model has one. `flat_butterflies_refine` then carries it to the shard-array model the schedules and the
    encoders / decoders are proved on. (The SIMD families compute the same blocks: `source_kernels_agree`.) -/
theorem source_butterflies_on_flat_memory (m : Nat) (f : Flat) (hs : f.data.size < 18446744073709551616)
    (pos dist : Nat) :
    ((ShardsRefMut_dist2_mut (hdr f) pos dist).map fun v =>
        let r := NoSimd_fft_butterfly_partial (lut16 (fun s => gmul (gexp m) s))
                   (v.1.get f.data).toList (v.2.get f.data).toList
        f.putDist2 pos dist r.1.toArray r.2.toArray) = f.fftBfly (gexp m) pos dist ∧
    ((ShardsRefMut_dist2_mut (hdr f) pos dist).map fun v =>
        let r := NoSimd_ifft_butterfly_partial (lut16 (fun s => gmul (gexp m) s))
                   (v.1.get f.data).toList (v.2.get f.data).toList
        f.putDist2 pos dist r.1.toArray r.2.toArray) = f.ifftBfly (gexp m) pos dist :=
  ⟨src_fft_butterfly_on_flat m f hs pos dist, src_ifft_butterfly_on_flat m f hs pos dist⟩

/-- every engine primitive is a function of its arguments and the five tables ONLY: today's source (outside test modules,
    `Gen/Statics.lean`, regenerated by `/verif/translate/statics.py` on every run) declares no global state besides the five
    `LazyLock` tables and uses no API through which the environment of the process could reach a result — no threads,
    no CPU count, no environment variables, clocks, files, random numbers — and asks the CPU for its features only in
    `engine_default.rs`; and WHICH code is compiled depends on nothing but `test`, `target_arch` and the hooks' feature (no
    `cfg(target_feature = …)`, `cfg(debug_assertions)`, … : what is translated is what every build runs). (The contents of the tables are C15's `source_tables_and_integer_code` / `source_mul_tables`.) -/
theorem source_engines_take_no_ambient_input :
    RS.Gen.ambientUses = [] ∧ RS.Gen.featureDetectionsOutsideDefaultEngine = 0 ∧
    RS.Gen.statics.map Prod.fst = [0, 1, 3, 2, 4] ∧ RS.Gen.threadLocals = 0 ∧ RS.Gen.staticMuts = 0 ∧
    RS.Gen.otherCfgPredicates = [] := by decide

open RS.SrcG RS.RustG in
/-- the ENTRY POINTS of the engines in today's source (`Gen/SrcGlue.lean`): `Engine::{fft, ifft, mul, eval_poly}` of
    Ssse3 / Avx2 / Neon hand all their arguments, in order, to the `#[target_feature]` function of their own ISA, which
    hands them on to the safe loop nest (`source_engine_loops_are_model`), the chunk kernel (`source_kernels_agree`)
    or the generic `utils::eval_poly` (C01 `source_decoder_helpers_are_model`); NoSimd calls the same loop nests
    directly; the provided `Engine::eval_poly` is `utils::eval_poly` — so all engines evaluate the same polynomial -/
theorem source_engine_entry_points :
    (∀ e ∈ ["ssse3", "avx2", "neon"], ∀ E ∈ [if e = "ssse3" then "Ssse3" else if e = "avx2" then "Avx2" else "Neon"],
      holds (E ++ "::fft") 5 (isMethodDeleg isSelf ("fft_private_" ++ e) 5) = true ∧
      holds (E ++ "::ifft") 5 (isMethodDeleg isSelf ("ifft_private_" ++ e) 5) = true ∧
      holds (E ++ "::mul") 2 (isMethodDeleg isSelf ("mul_" ++ e) 2) = true ∧
      holds (E ++ "::eval_poly") 2 (isCallDeleg ("Self::eval_poly_" ++ e) 2) = true ∧
      holds (E ++ "::fft_private_" ++ e) 5 (isMethodDeleg isSelf "fft_private" 5) = true ∧
      holds (E ++ "::ifft_private_" ++ e) 5 (isMethodDeleg isSelf "ifft_private" 5) = true ∧
      holds (E ++ "::eval_poly_" ++ e) 2 (isCallDeleg "utils::eval_poly" 2) = true) ∧
    holds "NoSimd::fft" 5 (isMethodDeleg isSelf "fft_private" 5) = true ∧
    holds "NoSimd::ifft" 5 (isMethodDeleg isSelf "ifft_private" 5) = true ∧
    holds "Engine::eval_poly" 2 (isCallDeleg "utils::eval_poly" 2) = true :=
  engine_entry_points_delegate

end RS
