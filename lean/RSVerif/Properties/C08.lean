/-
  C08 — supports() is exactly the documented envelope and constructors agree with it.
  Proofs in Proofs/Envelope.lean (+ EnvelopeAux); statements for ALL natural numbers k r
  (arguments up to usize::MAX included).
-/
import RSVerif.Proofs.Envelope

namespace RS

/-- README table: both counts ≥ 1 and for some n one count ≤ 2^n, the other ≤ 65536 − 2^n -/
theorem supports_default_iff (k r : Nat) :
    supportsDefault k r = true ↔
      1 ≤ k ∧ 1 ≤ r ∧ ∃ n, n ≤ 16 ∧ ((k ≤ 2 ^ n ∧ r ≤ 65536 - 2 ^ n) ∨ (r ≤ 2 ^ n ∧ k ≤ 65536 - 2 ^ n)) :=
  supportsDefault_iff

/-- high rate: the recovery count is the power-of-two-bounded side -/
theorem supports_high_iff (k r : Nat) :
    supportsHigh k r = true ↔ 1 ≤ k ∧ 1 ≤ r ∧ ∃ n, n ≤ 16 ∧ r ≤ 2 ^ n ∧ k ≤ 65536 - 2 ^ n :=
  supportsHigh_iff

/-- low rate: the original count is the power-of-two-bounded side -/
theorem supports_low_iff (k r : Nat) :
    supportsLow k r = true ↔ 1 ≤ k ∧ 1 ≤ r ∧ ∃ n, n ≤ 16 ∧ k ≤ 2 ^ n ∧ r ≤ 65536 - 2 ^ n :=
  supportsLow_iff

/-- the default envelope is the union of the two dedicated halves -/
theorem supports_default_eq_union (k r : Nat) :
    supportsDefault k r = (supportsHigh k r || supportsLow k r) :=
  supportsDefault_eq_or k r

/-- the rate the rule chooses is supported by the dedicated codec: the inner constructor cannot fail -/
theorem default_sub_dedicated (k r : Nat) :
    (useHighRate k r = .ok true → supportsHigh k r = true) ∧
    (useHighRate k r = .ok false → supportsLow k r = true) :=
  ⟨default_sub_dedicated_high, default_sub_dedicated_low⟩

/-- validate succeeds exactly when supports holds and the shard size is even and non-zero -/
theorem validate_ok_iff' (kind : Kind) (k r sb : Nat) :
    validate kind k r sb = .ok () ↔ supports kind k r = true ∧ sb ≠ 0 ∧ sb % 2 = 0 :=
  validate_ok_iff

/-- constructors succeed exactly then (any recycled work space), and never panic -/
theorem new_ok_iff (stale : Stale) (kind : Kind) (sched : Sched) (k r sb : Nat)
    (we : Option EncWork) (wd : Option DecWork) :
    ((∃ e, Encoder.new stale kind sched k r sb we = .ok e) ↔ supports kind k r = true ∧ sb ≠ 0 ∧ sb % 2 = 0) ∧
    ((∃ d, Decoder.new stale kind sched k r sb wd = .ok d) ↔ supports kind k r = true ∧ sb ≠ 0 ∧ sb % 2 = 0) ∧
    (∀ why, Encoder.new stale kind sched k r sb we ≠ .panic why) ∧
    (∀ why, Decoder.new stale kind sched k r sb wd ≠ .panic why) :=
  ⟨Encoder.new_ok_iff, Decoder.new_ok_iff, Encoder.new_no_panic, Decoder.new_no_panic⟩

/-- reset succeeds exactly then; a failed reset never leaves the inner codec empty -/
theorem reset_ok_iff (stale : Stale) (e : Encoder) (k r sb : Nat) (cur : Rate) (w : EncWork)
    (hi : e.inner = .some cur w) (hh : e.kind = .high → cur = .high) (hl : e.kind = .low → cur = .low) :
    ((e.reset stale k r sb).1 = .ok () ↔ supports e.kind k r = true ∧ sb ≠ 0 ∧ sb % 2 = 0) ∧
    (e.reset stale k r sb).2.inner ≠ .none ∧
    (∀ why, (e.reset stale k r sb).1 ≠ .panic why) :=
  ⟨Encoder.reset_ok_iff hi hh hl, Encoder.reset_inner_ne_none hi hh hl, Encoder.reset_no_panic hi hh hl⟩

theorem reset_ok_iff_dec (stale : Stale) (d : Decoder) (k r sb : Nat) (cur : Rate) (w : DecWork)
    (hi : d.inner = .some cur w) (hh : d.kind = .high → cur = .high) (hl : d.kind = .low → cur = .low) :
    ((d.reset stale k r sb).1 = .ok () ↔ supports d.kind k r = true ∧ sb ≠ 0 ∧ sb % 2 = 0) ∧
    (d.reset stale k r sb).2.inner ≠ .none ∧
    (∀ why, (d.reset stale k r sb).1 ≠ .panic why) :=
  ⟨Decoder.reset_ok_iff hi hh hl, Decoder.reset_inner_ne_none hi hh hl, Decoder.reset_no_panic hi hh hl⟩

/-- row form of the envelope: for every k the supported r are exactly 1 … cap k (the staircase
    `rsmodel cap` prints and the harness compares with the crate for all 65538² pairs) -/
theorem supports_row_form (kind : Kind) (k r : Nat) :
    supports kind k r = true ↔ 1 ≤ r ∧ r ≤ capOf kind k :=
  capOf_spec

/-- index safety, high rate: work space ≤ 65536 positions, every chunk `(pos, size, delta)` the
    codecs transform satisfies `delta + size ≤ 65536` (largest skew index `delta + size − 2 ≤ 65534`) -/
theorem index_safe_high (k r : Nat) (h : supportsHigh k r = true) :
    let c := npow2 r
    2 * c ≤ 65536 ∧ k ≤ highEncWorkCount k r ∧ highEncWorkCount k r ≤ 65536 ∧ c ∣ highEncWorkCount k r ∧
    (∀ j, j * c < k → (j + 2) * c ≤ 65536 ∧ (j + 1) * c ≤ highEncWorkCount k r) ∧
    c + k ≤ highDecWorkCount k r ∧ highDecWorkCount k r ≤ 65536 :=
  high_geometry h

theorem index_safe_low (k r : Nat) (h : supportsLow k r = true) :
    let c := npow2 k
    2 * c ≤ 65536 ∧ r ≤ lowEncWorkCount k r ∧ c ≤ lowEncWorkCount k r ∧ lowEncWorkCount k r ≤ 65536 ∧
    (∀ j, j * c < r → (j + 2) * c ≤ 65536 ∧ (j + 1) * c ≤ lowEncWorkCount k r) ∧
    c + r ≤ lowDecWorkCount k r ∧ lowDecWorkCount k r ≤ 65536 :=
  low_geometry h

/-- non-vacuity at the envelope edge -/
example : supportsDefault 61440 4096 = true ∧ supportsDefault 61441 4096 = false ∧
    supportsDefault 32768 32768 = true ∧ supportsDefault 32769 32768 = false := by decide

end RS
