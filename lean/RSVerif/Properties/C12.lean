/-
  C12 — result accessors expose exactly the produced shards; drop starts a new round.
  Index arguments are arbitrary natural numbers (every usize value).
-/
import RSVerif.Proofs.Access
import RSVerif.Proofs.InvPres
import RSVerif.Proofs.SrcWorkSpec
import RSVerif.Proofs.SrcIterSpec

namespace RS

/-- recovery(i) is Some exactly for i < recovery_count, with the configured length -/
theorem recovery_some_iff (w : EncWork) (i : Nat) :
    ((w.recovery i).isSome = true ↔ i < w.r) ∧ (∀ s, w.recovery i = some s → s.size = w.sb) :=
  ⟨recovery_isSome_iff w i, fun _ h => recovery_size h⟩

/-- the iterator yields recovery(0) … recovery(r−1) in order and then None forever -/
theorem recovery_iter (w : EncWork) (n : Nat) :
    recoveryTake w (w.r + n) {} = (w.recoveryList.map some) ++ List.replicate n none ∧
    w.recoveryList.length = w.r ∧ (∀ i, w.recoveryList[i]? = w.recovery i) :=
  ⟨recoveryTake_eq w n, recoveryList_length w, recoveryList_getElem? w⟩

/-- restored_original(i) is Some exactly for in-range indexes that were not given -/
theorem restored_some_iff (w : DecWork) (i : Nat) :
    ((w.restoredOriginal i).isSome = true ↔ i < w.k ∧ w.recvAt (w.obase + i) = false) ∧
    (∀ s, w.restoredOriginal i = some s → s.size = w.sb) :=
  ⟨restoredOriginal_isSome_iff w i, fun s h => restoredOriginal_size w i s h⟩

/-- the iterator yields exactly those (index, shard) pairs in ascending order, then None forever -/
theorem restored_iter (w : DecWork) (n : Nat) :
    restoredTake w (w.restoredList.length + n) {} = (w.restoredList.map some) ++ List.replicate n none ∧
    w.restoredList.map (·.1) = (List.range w.k).filter (fun i => !(w.recvAt (w.obase + i))) :=
  ⟨restoredTake_eq w n, restoredList_indices w⟩

/-- dropping the encoder result forgets the added shards: same configuration, nothing received -/
theorem drop_new_round_enc (e e' : Encoder) (out : List (Array Nat)) (rate : Rate) (w : EncWork)
    (hin : e.inner = .some rate w) (h : e.encode = (.ok out, e')) :
    ∃ w', e'.inner = .some rate w' ∧ w'.recv = 0 ∧ (w'.k, w'.r, w'.sb) = (w.k, w.r, w.sb) := by
  obtain ⟨w', h1, h2, h3, _⟩ := Encoder.encode_ok_state hin h
  exact ⟨w', h1, h2, h3⟩

/-- dropping the decoder result: counters zero, bitmap clear, configuration unchanged — the
    bookkeeping right after `reset` with the same configuration -/
theorem drop_new_round_dec (lw : Array Nat) (d d' : Decoder) (out : List (Nat × Array Nat))
    (rate : Rate) (w : DecWork) (hin : d.inner = .some rate w) (h : d.decode lw = (.ok out, d')) :
    ∃ w', d'.inner = .some rate w' ∧ w'.orecv = 0 ∧ w'.rrecv = 0 ∧ (∀ p, w'.recvAt p = false) ∧
      (w'.k, w'.r, w'.sb, w'.obase, w'.rbase) = (w.k, w.r, w.sb, w.obase, w.rbase) := by
  obtain ⟨w', h1, h2, h3, h4, h5, _⟩ := Decoder.decode_ok_state hin h
  exact ⟨w', h1, h2, h3, h4, h5⟩

/-- any number of consecutive rounds on one object (implicit reset only) -/
theorem consecutive_rounds (ls : List (List (Array Nat))) (e e' : Encoder)
    (outs : List (List (Array Nat))) (rate : Rate) (w : EncWork)
    (hin : e.inner = .some rate w) (h0 : w.recv = 0) (h : e.rounds ls = .ok (outs, e')) :
    ∃ w', e'.inner = .some rate w' ∧ w'.recv = 0 ∧ (w'.k, w'.r, w'.sb) = (w.k, w.r, w.sb) ∧
      outs.length = ls.length ∧ ∀ out ∈ outs, out.length = w.r := by
  obtain ⟨w', h1, h2, h3, _, h5, h6⟩ := Encoder.rounds_ok_state ls hin h0 h
  exact ⟨w', h1, h2, h3, h5, h6⟩

/-- non-vacuity: a (2,3) encoder really exposes three recovery shards and nothing at index 3 -/
example : ∃ w : EncWork, w.r = 3 ∧ (w.recovery 2).isSome = true ∧ (w.recovery 3).isSome = false ∧
    (w.recovery 18446744073709551615).isSome = false :=
  ⟨{ k := 2, r := 3, sb := 2, L := 1, mem := #[#v[1#16], #v[2#16], #v[3#16]] }, rfl, rfl, rfl, rfl⟩

/-! ### the same, about the SOURCE as translated today (Gen/SrcWork.lean, regenerated on every run) -/

open RS.RustW RS.SrcW in
/-- the translated accessors: `Some` exactly for the documented indexes, and they change nothing -/
theorem source_accessors {σ : Type} (ops : ShardsOps σ) (i : Nat) :
    (∀ st : EncoderWorkS σ, EncoderWork_recovery ops st i =
      if i < st.recovery_count then (ops.slice st.shards i st.shard_bytes).map (fun v => (some v, st))
      else some (none, st)) ∧
    (∀ st : DecoderWorkS σ, st.original_base_pos + i < 18446744073709551616 →
      DecoderWork_restored_original ops st i =
        if i < st.original_count ∧ BitSet.get st.received (st.original_base_pos + i) = false then
          (ops.slice st.shards (st.original_base_pos + i) st.shard_bytes).map (fun v => (some v, st))
        else some (none, st)) ∧
    (∀ st : DecoderWorkS σ, DecoderWork_reset_received ops st = some ((),
      { st with original_received_count := 0, recovery_received_count := 0,
                received := Array.replicate st.received.size false })) :=
  ⟨fun st => srcE_recovery_spec ops st i, fun st hb => srcD_restored_spec ops st i hb,
   fun st => srcD_reset_received_spec ops st⟩

open RS.SrcI RS.RustI in
/-- the result ITERATORS of today's source (Gen/SrcIter.lean: `Recovery::{new,next}`, `RestoredOriginal::{new,next}`
    translated on every run), driven by the model's accessors: ANY number `n` of further `next` calls after the
    last shard answers `None`, the shards come out in the documented order, no call panics (`some …`), and
    `Drop` of both result objects calls `reset_received` (the bookkeeping of `source_accessors`), and constructing a
    result object only borrows the work object; `recovery_iter()` / `restored_original_iter()` are `Recovery::new` /
    `RestoredOriginal::new` on that work object (the initial iterator state the first two clauses start from). -/
theorem source_iterators (w : EncWork) (d : DecWork) (hr : w.r ≤ 65536) (hk : d.k ≤ 65536) (n : Nat) :
    takeN (Recovery_next w.k w.recovery) (w.r + n) Recovery_new =
      some (w.recoveryList.map some ++ List.replicate n none) ∧
    takeN (RestoredOriginal_next d.k d.restoredOriginal) (d.restoredList.length + n) RestoredOriginal_new =
      some (d.restoredList.map some ++ List.replicate n none) ∧
    EncoderResult_drop_calls_reset_received = true ∧ DecoderResult_drop_calls_reset_received = true ∧
    EncoderResult_recovery_delegates = true ∧ DecoderResult_restored_original_delegates = true ∧
    EncoderResult_new_is_the_work = true ∧ DecoderResult_new_is_the_work = true ∧
    EncoderResult_recovery_iter_is_new = true ∧ DecoderResult_restored_original_iter_is_new = true := by
  refine ⟨?_, ?_, rfl, rfl, rfl, rfl, rfl, rfl, rfl, rfl⟩
  · rw [src_new_is_initial.1, src_recovery_take w w.k hr (w.r + n) {} (Nat.zero_le _), recoveryTake_eq]
  · rw [src_new_is_initial.2, src_restored_take d hk (d.restoredList.length + n) {}, restoredTake_eq]

end RS
