/-
  srcengine: runs the shard-operation programs that rs2lean_engine.py translated from the current Rust
  engines (Gen/SrcEngine.lean), interpreted on one symbol lane (Model/EngineInterp.lean), so that the harness
  can compare the *translation* with the implementation (validation of the translator).
    G <naive|nosimd|ssse3|avx2> <fft|ifft> pos size trunc delta <s0,s1,…>  -> ok <symbols> | overflow
-/
import RSVerif.Model.EngineInterp

open RS RS.RustE RS.SrcE

def parseSyms (s : String) : Option (Array Sym) :=
  if s = "-" then some #[] else (s.splitOn ",").toArray.mapM fun x => x.toNat?.map (BitVec.ofNat 16)

def showSyms (a : Array Sym) : String := ",".intercalate (a.toList.map fun x => toString x.toNat)

def prog (engine dir : String) : Option (Nat → Nat → Nat → Nat → (Nat → Bool) → Option (Array EOp)) :=
  match engine, dir with
  | "naive", "fft" => some Naive_fft
  | "naive", "ifft" => some Naive_ifft
  | "nosimd", "fft" => some NoSimd_fft
  | "nosimd", "ifft" => some NoSimd_ifft
  | "ssse3", "fft" => some Ssse3_fft
  | "ssse3", "ifft" => some Ssse3_ifft
  | "avx2", "fft" => some Avx2_fft
  | "avx2", "ifft" => some Avx2_ifft
  | _, _ => none

def answer (line : String) : String :=
  match line.trimAscii.toString.splitOn " " with
  | ["G", engine, dir, pos, size, trunc, delta, syms] =>
    match prog engine dir, pos.toNat?, size.toNat?, trunc.toNat?, delta.toNat?, parseSyms syms with
    | some f, some pos, some size, some trunc, some delta, some a =>
      (match f pos size trunc delta skewZero with
       | some ops => "ok " ++ showSyms (runE ops a)
       | none => "overflow")
    | _, _, _, _, _, _ => "bad-op"
  | _ => "bad-op"

partial def loop (h : IO.FS.Stream) (out : IO.FS.Stream) : IO Unit := do
  let line ← h.getLine
  if line.isEmpty then return ()
  out.putStrLn (answer line)
  loop h out

def main : IO Unit := do
  let out ← IO.getStdout
  loop (← IO.getStdin) out
  out.flush
