/-
  srcmodel: runs the functions that rs2lean.py translated from the current Rust source
  (Gen/SrcEnvelope.lean), one request per line, so that the harness can compare the *translation* with
  the implementation it was translated from (validation of the translator).
    S supports <high|low|default> k r        -> true | false | overflow
    S validate <high|low|default> k r sb     -> ok | err <Variant> <fields…> | overflow
    S workcount <henc|hdec|lenc|ldec> k r    -> <n> | overflow
-/
import RSVerif.Gen.SrcEnvelope

open RS.Src RS.Rust

def showErr : SrcErr → String
  | .UnsupportedShardCount k r => s!"UnsupportedShardCount {k} {r}"
  | .InvalidShardSize sb => s!"InvalidShardSize {sb}"

def supportsOf (kind : String) : Option (Nat → Nat → Option Bool) :=
  match kind with
  | "high" => some HighRate_supports
  | "low" => some LowRate_supports
  | "default" => some DefaultRate_supports
  | _ => none

def answer (line : String) : String :=
  match line.trimAscii.toString.splitOn " " with
  | ["S", "supports", kind, k, r] =>
    match supportsOf kind, k.toNat?, r.toNat? with
    | some f, some k, some r =>
      (match f k r with | some b => toString b | none => "overflow")
    | _, _, _ => "bad-op"
  | ["S", "validate", kind, k, r, sb] =>
    match supportsOf kind, k.toNat?, r.toNat?, sb.toNat? with
    | some f, some k, some r, some sb =>
      (match Rate_validate f k r sb with
       | some (Res.Ok _) => "ok"
       | some (Res.Err e) => "err " ++ showErr e
       | none => "overflow")
    | _, _, _, _ => "bad-op"
  | ["S", "workcount", which, k, r] =>
    match k.toNat?, r.toNat? with
    | some k, some r =>
      let v := match which with
        | "henc" => HighRateEncoder_work_count k r
        | "hdec" => HighRateDecoder_work_count k r
        | "lenc" => LowRateEncoder_work_count k r
        | "ldec" => LowRateDecoder_work_count k r
        | _ => none
      (match v with | some n => toString n | none => "overflow")
    | _, _ => "bad-op"
  | _ => "bad-op"

partial def loop (h : IO.FS.Stream) (out : IO.FS.Stream) : IO Unit := do
  let line ← h.getLine
  if line.isEmpty then return ()
  out.putStrLn (answer line)
  loop h out

def main : IO Unit := do
  let out ← IO.getStdout
  loop (← IO.getStdin) out
  out.flush
