import RSVerif.Model.Field
import RSVerif.Model.Engine
import RSVerif.Model.Codec
import RSVerif.Model.State
import RSVerif.Model.Tables
import RSVerif.Model.Spec
