/-
  srcwork: runs the bookkeeping methods of `EncoderWork` / `DecoderWork` that rs2lean_work.py translated
  from the current Rust source (Gen/SrcWork.lean) on call histories, one request per line, so that the
  harness can compare the *translation* with the implementation (validation of the translator).
  The shard memory is trivial (every memory operation succeeds); only verdicts are compared.
    W dnew k r sb obase rbase wc | W daddo i len | W daddr i len | W dbegin | W drestored i | W dclear
    W enew k r sb wc | W eadd len | W ebegin | W erecovery i | W eclear
    Z   (fresh objects)
-/
import RSVerif.Gen.SrcWork

open RS.RustW RS.SrcW

def triv : ShardsOps Unit :=
  { insert := fun _ _ _ => some (), resize := fun _ _ _ => (), undoLast := fun _ _ _ _ => some (),
    slice := fun _ _ _ => some #[] }

structure St where
  d : DecoderWorkS Unit := ⟨0, 0, 0, 0, 0, 0, 0, #[], ()⟩
  e : EncoderWorkS Unit := ⟨0, 0, 0, 0, ()⟩

def showRes {α : Type} (r : Res α) (f : α → String) : String :=
  match r with
  | .Ok v => let s := f v; if s.isEmpty then "ok" else "ok " ++ s
  | .Err e => "err " ++ e.show

def step (st : St) (line : String) : St × String :=
  match line.trimAscii.toString.splitOn " " with
  | ["Z"] => ({}, "ok")
  | ["W", "dnew", k, r, sb, ob, rb, wc] =>
    match k.toNat?, r.toNat?, sb.toNat?, ob.toNat?, rb.toNat?, wc.toNat? with
    | some k, some r, some sb, some ob, some rb, some wc =>
      (match DecoderWork_reset triv st.d k r sb ob rb wc with
       | some (_, d) => ({ st with d := d }, "ok")
       | none => (st, "panic"))
    | _, _, _, _, _, _ => (st, "bad-op")
  | ["W", "daddo", i, len] =>
    match i.toNat?, len.toNat? with
    | some i, some len =>
      (match DecoderWork_add_original_shard triv st.d i (Array.replicate len 0) with
       | some (r, d) => ({ st with d := d }, showRes r fun _ => "")
       | none => (st, "panic"))
    | _, _ => (st, "bad-op")
  | ["W", "daddr", i, len] =>
    match i.toNat?, len.toNat? with
    | some i, some len =>
      (match DecoderWork_add_recovery_shard triv st.d i (Array.replicate len 0) with
       | some (r, d) => ({ st with d := d }, showRes r fun _ => "")
       | none => (st, "panic"))
    | _, _ => (st, "bad-op")
  | ["W", "dbegin"] =>
    (match DecoderWork_decode_begin triv st.d with
     | some (r, d) => ({ st with d := d }, showRes r fun o => match o with | none => "none" | some (_, k, r, _) => s!"some {k} {r}")
     | none => (st, "panic"))
  | ["W", "drestored", i] =>
    match i.toNat? with
    | some i =>
      (match DecoderWork_restored_original triv st.d i with
       | some (o, d) => ({ st with d := d }, if o.isSome then "some" else "none")
       | none => (st, "panic"))
    | _ => (st, "bad-op")
  | ["W", "dclear"] =>
    (match DecoderWork_reset_received triv st.d with
     | some (_, d) => ({ st with d := d }, "ok")
     | none => (st, "panic"))
  | ["W", "enew", k, r, sb, wc] =>
    match k.toNat?, r.toNat?, sb.toNat?, wc.toNat? with
    | some k, some r, some sb, some wc =>
      (match EncoderWork_reset triv st.e k r sb wc with
       | some (_, e) => ({ st with e := e }, "ok")
       | none => (st, "panic"))
    | _, _, _, _ => (st, "bad-op")
  | ["W", "eadd", len] =>
    match len.toNat? with
    | some len =>
      (match EncoderWork_add_original_shard triv st.e (Array.replicate len 0) with
       | some (r, e) => ({ st with e := e }, showRes r fun _ => "")
       | none => (st, "panic"))
    | _ => (st, "bad-op")
  | ["W", "ebegin"] =>
    (match EncoderWork_encode_begin triv st.e with
     | some (r, e) => ({ st with e := e }, showRes r fun (_, k, r) => s!"{k} {r}")
     | none => (st, "panic"))
  | ["W", "erecovery", i] =>
    match i.toNat? with
    | some i =>
      (match EncoderWork_recovery triv st.e i with
       | some (o, e) => ({ st with e := e }, if o.isSome then "some" else "none")
       | none => (st, "panic"))
    | _ => (st, "bad-op")
  | ["W", "eclear"] =>
    (match EncoderWork_reset_received triv st.e with
     | some (_, e) => ({ st with e := e }, "ok")
     | none => (st, "panic"))
  | _ => (st, "bad-op")

partial def loop (h : IO.FS.Stream) (out : IO.FS.Stream) (st : St) : IO Unit := do
  let line ← h.getLine
  if line.isEmpty then return ()
  let (st', a) := step st line
  out.putStrLn a
  loop h out st'

def main : IO Unit := do
  let out ← IO.getStdout
  loop (← IO.getStdin) out {}
  out.flush
