import RSVerif.Properties.C14
#print axioms RS.select_x86
#print axioms RS.select_arm
