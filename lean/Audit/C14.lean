import RSVerif.Properties.C14
#print axioms RS.select_x86
#print axioms RS.select_arm
#print axioms RS.source_target_features_match_their_engine
#print axioms RS.source_selection_is_model
