import RSVerif.Properties.C04
#print axioms RS.slot_hom
#print axioms RS.layout_roundtrip
#print axioms RS.layout_placement
#print axioms RS.output_bytes_of_slot
#print axioms RS.lengths
#print axioms RS.blocks_insert
#print axioms RS.blocks_expose
#print axioms RS.blocks_lanewise
#print axioms RS.block_memory_codec
#print axioms RS.resize_keeps_stale_blocks
#print axioms RS.source_layout_is_block_model
