import RSVerif.Properties.C16
#print axioms RS.observed_deadlock_free
#print axioms RS.observed_no_reentrancy
#print axioms RS.observed_terminates
#print axioms RS.observed_final_state
#print axioms RS.source_global_state_is_the_tables
#print axioms RS.source_starts_no_threads
#print axioms RS.source_lazy_deps_are_observed
