import RSVerif.Properties.C12
#print axioms RS.recovery_some_iff
#print axioms RS.recovery_iter
#print axioms RS.restored_some_iff
#print axioms RS.restored_iter
#print axioms RS.drop_new_round_enc
#print axioms RS.drop_new_round_dec
#print axioms RS.consecutive_rounds
#print axioms RS.source_accessors
#print axioms RS.source_iterators
