import RSVerif.Properties.C03
#print axioms RS.mul_kernels_agree'
#print axioms RS.mul_explog_agrees
#print axioms RS.sched_agree_fft
#print axioms RS.sched_agree_ifft
#print axioms RS.frame
#print axioms RS.engines_agree_encode
#print axioms RS.engines_agree_decode
#print axioms RS.engines_agree_objects
#print axioms RS.loops_eq_model
#print axioms RS.simd_kernel_spec
#print axioms RS.simd_block_kernels_agree
#print axioms RS.simd_block_butterflies
#print axioms RS.flat_butterflies_refine
#print axioms RS.flat_transforms_refine
#print axioms RS.source_engine_loops_are_model
#print axioms RS.source_kernels_agree
#print axioms RS.source_kernels_are_field_butterflies
