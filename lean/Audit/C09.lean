import RSVerif.Properties.C09
#print axioms RS.rate_rule'
#print axioms RS.source_rate_rule
#print axioms RS.default_new_eq_dedicated
#print axioms RS.default_new_eq_dedicated_dec
#print axioms RS.default_reset_rate
#print axioms RS.ops_ignore_kind
#print axioms RS.source_default_codec_is_rule
#print axioms RS.source_api_layers_delegate
