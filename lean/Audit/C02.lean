import RSVerif.Properties.C02
#print axioms RS.encode_high_eq_cauchy
#print axioms RS.encode_low_eq_cauchy
#print axioms RS.encode_slot_eq_matrix
#print axioms RS.encode_pure
#print axioms RS.flat_encode_is_cauchy
#print axioms RS.source_encode_is_cauchy
