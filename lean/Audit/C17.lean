import RSVerif.Properties.C17
#print axioms RS.round_no_alloc
#print axioms RS.reset_alloc_iff_grows
#print axioms RS.reset_no_alloc_of_le
#print axioms RS.renew_alloc_iff_grows
#print axioms RS.allocs_count
#print axioms RS.one_allocation
#print axioms RS.source_reset
#print axioms RS.source_rounds_never_resize
