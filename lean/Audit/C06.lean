import RSVerif.Properties.C06
#print axioms RS.inv_reachable
#print axioms RS.no_panic
#print axioms RS.errors_truthful_enc
#print axioms RS.errors_truthful_dec
#print axioms RS.valid_use_succeeds
#print axioms RS.oneshot_truthful
#print axioms RS.flat_memory_panic_free_iff
#print axioms RS.source_errors_truthful
#print axioms RS.source_valid_calls_succeed
#print axioms RS.source_simulates_model
#print axioms RS.source_simulates_model_steps
#print axioms RS.source_simulation_starts
