import RSVerif.Properties.C05
#print axioms RS.encoder_round_stale_indep''
#print axioms RS.decoder_round_stale_indep''
#print axioms RS.history_indep'
#print axioms RS.encode_reads_only_originals
#print axioms RS.decode_reads_only_received
#print axioms RS.oneshot_stale_indep
#print axioms RS.source_global_state
#print axioms RS.source_no_ambient_inputs
#print axioms RS.source_reset_forgets_bookkeeping
