import RSVerif.Properties.C01
#print axioms RS.answer_shape
#print axioms RS.locator_logs_correct
#print axioms RS.decode_high_restores
#print axioms RS.decode_low_restores
#print axioms RS.roundtrip
#print axioms RS.flat_decoders_are_lane_decoders
#print axioms RS.source_decoders_are_model_decoders
#print axioms RS.source_decoder_helpers_are_model
