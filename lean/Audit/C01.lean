import RSVerif.Properties.C01
#print axioms RS.restoredList_indices_aux
#print axioms RS.restoredList_indices
#print axioms RS.restoredOriginal_size
#print axioms RS.decode_ok_of_enough
