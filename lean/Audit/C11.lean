import RSVerif.Properties.C11
#print axioms RS.adds_commute
#print axioms RS.adds_perm
#print axioms RS.decode_perm
#print axioms RS.given_not_restored'
#print axioms RS.all_given_empty'
#print axioms RS.surplus_indep
#print axioms RS.source_adds_commute
