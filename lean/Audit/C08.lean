import RSVerif.Properties.C08
#print axioms RS.supports_default_iff
#print axioms RS.supports_high_iff
#print axioms RS.supports_low_iff
#print axioms RS.supports_default_eq_union
#print axioms RS.default_sub_dedicated
#print axioms RS.validate_ok_iff'
#print axioms RS.new_ok_iff
#print axioms RS.reset_ok_iff
#print axioms RS.reset_ok_iff_dec
#print axioms RS.supports_row_form
#print axioms RS.index_safe_high
#print axioms RS.index_safe_low
#print axioms RS.source_supports_is_envelope
#print axioms RS.source_validate
#print axioms RS.source_work_counts
#print axioms RS.source_reset_work
