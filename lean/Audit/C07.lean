import RSVerif.Properties.C07
#print axioms RS.err_preserves_state
#print axioms RS.inner_never_none
#print axioms RS.err_transparent_enc
#print axioms RS.err_transparent_dec
#print axioms RS.source_err_changes_nothing
#print axioms RS.source_default_reset_safe
