import RSVerif.Properties.C10
#print axioms RS.oneshot_encode_eq
#print axioms RS.oneshot_decode_eq
#print axioms RS.oneshot_degenerate
#print axioms RS.oneshot_errors_truthful
#print axioms RS.source_oneshot_is_streaming
