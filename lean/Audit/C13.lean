import RSVerif.Properties.C13
#print axioms RS.field_laws
#print axioms RS.encode_add
#print axioms RS.encode_smul
#print axioms RS.encode_zero
#print axioms RS.decode_add
#print axioms RS.source_codecs_are_linear
