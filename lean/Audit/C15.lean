import RSVerif.Properties.C15
#print axioms RS.mul_spec
#print axioms RS.exp_log_spec
#print axioms RS.mod_arith
#print axioms RS.fft_trunc'
#print axioms RS.ifft_trunc'
#print axioms RS.ifft_fft_inverse'
#print axioms RS.fft_evaluates
#print axioms RS.evalPoly_trunc_indep'
#print axioms RS.evalPoly_is_convolution
#print axioms RS.evalPoly_is_locator_log
#print axioms RS.tables_spec
#print axioms RS.table_construction_correct
#print axioms RS.source_tables_and_integer_code
#print axioms RS.source_mul_tables
#print axioms RS.source_table_wiring
