#!/usr/bin/env python3
"""
check.py <ID> --tier quick|thorough [--replay FILE]

Decides property <ID> of /verif/properties.jsonl for the current working tree of /repo:

 1. proof obligations: `lake build RSVerif.Properties.<ID>` and `lake env lean Audit/<ID>.lean`
    (every property theorem must check, with axioms within {propext, Classical.choice, Quot.sound});
 2. tie: `cargo build` of /verif/harness against /repo (path dependency, hooks on);
 3. correspondence (Lean model `rsmodel` vs implementation on the same op sequences) and the
    property's direct oracle on the implementation;
 4. classification -> exit code, VIOLATION / KNOWN-FINDING lines, replay files, evidence.

Exit 0: property held on everything explored.  Exit 1: VIOLATION line(s) printed.
Exit 2: the check could not be run (harness does not compile against /repo's API, tool missing).
"""
import fcntl
import json
import os
import re
import subprocess
import sys
import time

VERIF = os.path.dirname(os.path.abspath(__file__))
LEAN = os.path.join(VERIF, "lean")
HARNESS = os.path.join(VERIF, "harness")
EVID = os.path.join(VERIF, "evidence")
REPLAYS = os.path.join(VERIF, "replays")
RSMODEL = os.path.join(LEAN, ".lake", "build", "bin", "rsmodel")
ALLOWED_AXIOMS = {"propext", "Classical.choice", "Quot.sound"}

sys.path.insert(0, VERIF)
from props_meta import PROPS  # noqa: E402


def sh(cmd, cwd=None, timeout=None, env=None):
    e = dict(os.environ)
    e["CARGO_NET_OFFLINE"] = "true"
    if env:
        e.update(env)
    p = subprocess.run(cmd, cwd=cwd, shell=isinstance(cmd, str), stdout=subprocess.PIPE,
                       stderr=subprocess.STDOUT, timeout=timeout, env=e, text=True)
    return p.returncode, p.stdout


class Lock:
    def __init__(self, name):
        self.path = os.path.join(VERIF, ".lock-" + name)

    def __enter__(self):
        self.f = open(self.path, "w")
        fcntl.flock(self.f, fcntl.LOCK_EX)

    def __exit__(self, *a):
        fcntl.flock(self.f, fcntl.LOCK_UN)
        self.f.close()


def lean_obligations(pid, tier):
    """build the property module, audit axioms; returns dict"""
    res = {"theorems": [], "obligations": 0, "discharged": 0, "errors": [], "axioms": {},
           "checker_cmd": f"cd lean && lake build RSVerif.Properties.{pid} && lake env lean Audit/{pid}.lean"}
    prop_file = os.path.join(LEAN, "RSVerif", "Properties", pid + ".lean")
    audit_file = os.path.join(LEAN, "Audit", pid + ".lean")
    if not os.path.exists(prop_file):
        res["errors"].append("no property module")
        return res
    # the audit file is regenerated from the theorem names of the property module
    src0 = open(prop_file).read()
    ns = re.search(r"^namespace\s+(\S+)", src0, flags=re.M)
    prefix = (ns.group(1) + ".") if ns else ""
    names = re.findall(r"^theorem\s+([A-Za-z0-9_.']+)", src0, flags=re.M)
    os.makedirs(os.path.dirname(audit_file), exist_ok=True)
    with open(audit_file, "w") as f:
        f.write(f"import RSVerif.Properties.{pid}\n")
        for n in names:
            f.write(f"#print axioms {prefix}{n}\n")
    with Lock("lake"):
        pre = PROPS[pid].get("pre_lean")
        if pre:
            rc, out = pre()
            if rc != 0:
                res["errors"].append("regeneration of Lean input failed: " + out[-2000:])
                return res
        rc, out = sh(["lake", "build", f"RSVerif.Properties.{pid}", "rsmodel"] + list(PROPS[pid].get("extra_targets", [])),
                     cwd=LEAN, timeout=3600)
        if rc != 0:
            res["errors"].append("lake build failed:\n" + out[-4000:])
            return res
        rc, out = sh(["lake", "env", "lean", audit_file], cwd=LEAN, timeout=1800)
    if rc != 0:
        res["errors"].append("audit failed:\n" + out[-3000:])
    # parse #print axioms output
    cur = None
    text = out.replace("\n  ", " ")
    for m in re.finditer(r"'(\S+)' (depends on axioms: \[([^\]]*)\]|does not depend on any axioms)", text):
        name = m.group(1)
        axs = [a.strip() for a in (m.group(3) or "").split(",") if a.strip()]
        res["axioms"][name] = axs
        res["obligations"] += 1
        bad = [a for a in axs if a not in ALLOWED_AXIOMS]
        if bad:
            res["errors"].append(f"theorem {name} depends on disallowed axioms {bad}")
        else:
            res["discharged"] += 1
        res["theorems"].append(name)
    # every theorem of the property file must be audited
    src = open(prop_file).read()
    declared = re.findall(r"^theorem\s+([A-Za-z0-9_.']+)", src, flags=re.M)
    audited = {t.split(".")[-1] for t in res["theorems"]}
    for d in declared:
        if d.split(".")[-1] not in audited:
            res["errors"].append(f"theorem {d} of Properties/{pid}.lean is not covered by Audit/{pid}.lean")
    # forbidden constructs in every Lean source the property module (transitively) imports,
    # comments stripped (files outside the import closure cannot affect the theorems)
    bad_pat = re.compile(r"\b(sorry|admit|native_decide|bv_decide|implemented_by|unsafe)\b|^axiom |maxHeartbeats 0")
    closure, todo = set(), [f"RSVerif.Properties.{pid}"]
    while todo:
        m = todo.pop()
        if m in closure:
            continue
        fp = os.path.join(LEAN, *m.split(".")) + ".lean"
        if not os.path.exists(fp):
            continue
        closure.add(m)
        for im in re.findall(r"^import\s+(RSVerif\.[A-Za-z0-9_.]+)", open(fp).read(), flags=re.M):
            todo.append(im)
    res["lean_modules_in_closure"] = len(closure)
    for m in sorted(closure):
        fp = os.path.join(LEAN, *m.split(".")) + ".lean"
        txt = open(fp).read()
        txt = re.sub(r"/-.*?-/", "", txt, flags=re.S)
        for ln in txt.splitlines():
            code = ln.split("--")[0]
            if bad_pat.search(code):
                res["errors"].append(f"forbidden construct in {m}: {ln.strip()[:120]}")
    if tier == "thorough" and not res["errors"]:
        rc, out = sh(["lake", "env", "leanchecker", f"RSVerif.Properties.{pid}"], cwd=LEAN, timeout=3600)
        res["leanchecker_rc"] = rc
        if rc != 0:
            res["errors"].append("leanchecker rejected the module:\n" + out[-2000:])
    return res


def build_harness(profile):
    """returns (ok, note, binary)"""
    flags = ["--release"] if profile == "release" else []
    binp = os.path.join(HARNESS, "target", "release" if profile == "release" else "debug", "rsharness")
    with Lock("cargo"):
        lock_src = "/repo/Cargo.lock"
        lock_dst = os.path.join(HARNESS, "Cargo.lock")
        if not os.path.exists(lock_dst) and os.path.exists(lock_src):
            import shutil
            shutil.copy(lock_src, lock_dst)
        def private_copy():
            # the binary of THIS build (of /repo as it is now) is copied aside while the build lock is
            # held, so that a concurrent check of a different tree cannot swap it under this run
            import shutil
            d = os.path.join(HARNESS, "target", "runs")
            os.makedirs(d, exist_ok=True)
            dst = os.path.join(d, f"rsharness-{profile}-{os.getpid()}")
            shutil.copy2(binp, dst)
            PRIVATE_BINS.append(dst)
            return dst
        rc, out = sh(["cargo", "build", "--offline"] + flags, cwd=HARNESS, timeout=3600)
        if rc == 0:
            return True, "", private_copy()
        if "neon_port" in out or "neon_emu" in out:
            rc2, out2 = sh(["cargo", "build", "--offline", "--no-default-features"] + flags, cwd=HARNESS, timeout=3600)
            if rc2 == 0:
                return True, "neon port does not compile against the current engine_neon.rs: Neon sub-checks unavailable", private_copy()
            out = out2
        return False, out[-6000:], binp


PRIVATE_BINS = []


def cpu_flags():
    try:
        for line in open("/proc/cpuinfo"):
            if line.startswith("flags"):
                return set(line.split(":", 1)[1].split())
    except OSError:
        pass
    return set()


# the crate (and the harness) compiled with other RUSTFLAGS: anything selected by `cfg(target_feature = …)` at COMPILE
# time is exercised by none of the ordinary builds.  (name, RUSTFLAGS, CPU flags the machine must report to run it)
BUILD_VARIANTS = [
    ("native", "-C target-cpu=native", []),
    ("avx2", "-C target-feature=+avx2", ["avx2"]),
    ("ssse3", "-C target-feature=+ssse3", ["ssse3"]),
    ("sse41", "-C target-feature=+sse4.1,+ssse3", ["sse4_1", "ssse3"]),
]


def build_variant(name, rustflags):
    """the release harness in its own target directory with RUSTFLAGS; returns (ok, note, binary)"""
    tdir = os.path.join(HARNESS, "target", "variant-" + name)
    binp = os.path.join(tdir, "release", "rsharness")
    env = dict(os.environ)
    env["RUSTFLAGS"] = rustflags
    with Lock("cargo-" + name):
        rc, out = sh(["cargo", "build", "--offline", "--release", "--target-dir", tdir], cwd=HARNESS, timeout=3600, env=env)
        if rc != 0:
            return False, out[-1500:], binp
        import shutil
        d = os.path.join(HARNESS, "target", "runs")
        os.makedirs(d, exist_ok=True)
        dst = os.path.join(d, f"rsharness-variant-{name}-{os.getpid()}")
        shutil.copy2(binp, dst)
        PRIVATE_BINS.append(dst)
        return True, "", dst


def run_build_variants(pid, tier, notes):
    """engine agreement for every log_m, round trips and the XOR-parity closed form in binaries built with other RUSTFLAGS"""
    flags = cpu_flags()
    findings, n = [], 0
    todo = BUILD_VARIANTS if tier == "thorough" else BUILD_VARIANTS[:2]
    for name, rf, need in todo:
        if any(f not in flags for f in need):
            notes.append(f"build variant {name} ({rf}) not run: this CPU does not report {need}")
            continue
        ok, note, vbin = build_variant(name, rf)
        if not ok:
            notes.append(f"build variant {name} ({rf}) does not compile: {note[-300:]}")
            continue
        try:
            rc, out = sh([vbin, "env-child", "0"], timeout=600)
        except subprocess.TimeoutExpired:
            rc, out = 1, "timeout"
        n += 1
        if rc != 0 or not out.strip().startswith("OK"):
            findings.append({"class": "oracle",
                             "what": f"crate built with RUSTFLAGS='{rf}': {out.strip()[-400:]}",
                             "case": {"name": f"build-variant {name}",
                                      "lines": [f"RUSTFLAGS='{rf}' cargo build --offline --release (in /verif/harness) && rsharness env-child 0"]}})
    return {"profile": "build-variants", "findings": findings, "evaluations": n, "distinct_nontrivial": n,
            "counters": {"build_variants_run": n}, "distribution": {}, "notes": []}


def repo_fingerprint():
    import hashlib
    h = hashlib.sha256()
    for cmd in (["git", "-C", "/repo", "rev-parse", "HEAD"], ["git", "-C", "/repo", "diff", "HEAD"],
                ["git", "-C", "/repo", "status", "--porcelain"]):
        h.update(subprocess.run(cmd, stdout=subprocess.PIPE, stderr=subprocess.DEVNULL).stdout)
    return h.hexdigest()[:16]


def load_known():
    p = os.path.join(VERIF, "known_findings.json")
    if not os.path.exists(p):
        return []
    return json.load(open(p)).get("known", [])


def matches_known(pid, finding, known):
    for k in known:
        if k.get("property") != pid:
            continue
        pat = k.get("match", "")
        hay = finding.get("what", "") + "\n" + "\n".join(finding.get("case", {}).get("lines", []))
        if pat and re.search(pat, hay):
            return k
    return None


def write_replay(pid, idx, payload):
    os.makedirs(REPLAYS, exist_ok=True)
    path = os.path.join(REPLAYS, f"{pid}-{idx}.json")
    with open(path, "w") as f:
        json.dump(payload, f, indent=1)
    return path


def main():
    if len(sys.argv) < 2:
        print(__doc__)
        return 2
    pid = sys.argv[1]
    tier = os.environ.get("VERIF_TIER", "quick")
    replay = None
    a = sys.argv[2:]
    while a:
        if a[0] == "--tier":
            tier = a[1]
            a = a[2:]
        elif a[0] == "--replay":
            replay = a[1]
            a = a[2:]
        else:
            a = a[1:]
    seed = int(os.environ.get("VERIF_SEED", "1"))
    if pid not in PROPS:
        print("unknown property", pid)
        return 2
    meta = PROPS[pid]
    t0 = time.time()
    os.makedirs(EVID, exist_ok=True)
    fp_start = repo_fingerprint()

    # ---- 1. tie: build the harness against the current /repo (needed first: C16 regenerates a Lean
    #         input from the running code)
    profiles = meta.get("profiles", ["release"])
    bins = {}
    notes = []
    for prof in profiles:
        ok, note, binp = build_harness(prof)
        if not ok:
            print(f"CANNOT-DECIDE property={pid}: the correspondence harness does not compile against /repo "
                  f"(public API changed?) - no verdict.\n{note}")
            ev = {"property_id": pid, "tier": tier, "seed": seed, "level": "other",
                  "coverage": {"explanation": "harness could not be compiled against the current /repo; "
                               "no verdict was reached", "build_error": note[-1500:]},
                  "wall_s": time.time() - t0, "violations": 0}
            json.dump(ev, open(os.path.join(EVID, pid + ".json"), "w"), indent=1)
            return 2
        if note:
            notes.append(note)
        bins[prof] = binp

    # ---- 2. proof obligations
    lean = lean_obligations(pid, tier)

    if replay:
        # 1. re-run the recorded case: generic oracles + model agreement
        rc, out = sh([bins[profiles[0]], "replay", "--model", RSMODEL, "--case", replay])
        print(out)
        rj = {}
        try:
            rj = json.load(open(replay))
        except Exception:
            pass
        if rc == 1:
            print(f"VIOLATION property={pid} replay={replay}")
            return 1
        # 2. property-specific oracles are not part of the recorded lines: re-run the check with the
        #    recorded seed and tier
        if rj.get("seed") is not None:
            os.environ["VERIF_SEED"] = str(rj["seed"])
            seed = int(rj["seed"])
            tier = rj.get("tier", tier)
            print(f"re-running ./check.py {pid} --tier {tier} with VERIF_SEED={seed}")
        else:
            return 0

    # ---- 3. correspondence + direct oracle
    reports = []
    for prof in profiles:
        outp = os.path.join(EVID, f".{pid}-{prof}-report.json")
        if os.path.exists(outp):
            os.remove(outp)
        rc, out = sh([bins[prof], pid, "--tier", tier, "--seed", str(seed), "--model", RSMODEL, "--out", outp],
                     timeout=6 * 3600)
        if rc != 0 or not os.path.exists(outp):
            reports.append({"profile": prof, "crashed": True, "output": out[-3000:], "findings": [
                {"class": "oracle", "what": "harness process ended abnormally (exit %s): %s" % (rc, " | ".join(out.strip()[-600:].splitlines())),
                 "case": {"name": "harness-crash", "lines": []}}], "evaluations": 0, "distinct_nontrivial": 0})
            continue
        rep = json.load(open(outp))
        rep["profile"] = prof
        reports.append(rep)
        os.remove(outp)

    if meta.get("build_variants"):
        reports.append(run_build_variants(pid, tier, notes))

    # ---- 4. classification
    known = load_known()
    oracle, model = [], []
    for rep in reports:
        for f in rep.get("findings", []):
            f["profile"] = rep["profile"]
            (oracle if f["class"] == "oracle" else model).append(f)
    violations = []
    known_lines = []
    n_replay = 0
    seen_known = set()
    for f in oracle:
        k = matches_known(pid, f, known)
        if k:
            if k["id"] not in seen_known:
                known_lines.append(f"KNOWN-FINDING: property={pid} {k['what']}")
                seen_known.add(k["id"])
            continue
        if n_replay < 5:
            path = write_replay(pid, n_replay, {"property": pid, "kind": "failing-input", "what": f["what"],
                                                "seed": seed, "tier": tier,
                                                "profile": f.get("profile"), "case": f["case"],
                                                "line_no": f.get("line_no"),
                                                "replay_cmd": f"./check.py {pid} --replay <this file>"})
            violations.append(f"VIOLATION property={pid} replay={path}")
            n_replay += 1
    broken = []
    if lean["errors"]:
        broken.append({"kind": "theorem", "detail": lean["errors"]})
    if model:
        broken.append({"kind": "correspondence", "detail": [m["what"] for m in model[:10]]})
    if broken and not violations and not replay:
        # SEARCH: something no longer checks but no input failed the direct oracle in this run.
        # Look further: the same generators with other seeds, then the thorough generator (time-boxed).
        search_log = []
        found = []
        attempts = [("quick", seed + 1), ("quick", seed + 2), ("quick", seed + 3)]
        if tier == "quick":
            attempts.append(("thorough", seed))
        t_search = time.time()
        for (t2, s2) in attempts:
            if found or time.time() - t_search > 1200:
                break
            prof = profiles[0]
            outp = os.path.join(EVID, f".{pid}-search-report.json")
            if os.path.exists(outp):
                os.remove(outp)
            try:
                rc, out = sh([bins[prof], pid, "--tier", t2, "--seed", str(s2), "--model", RSMODEL, "--out", outp],
                             timeout=900)
            except subprocess.TimeoutExpired:
                search_log.append(f"tier={t2} seed={s2}: timed out")
                continue
            if os.path.exists(outp):
                rep = json.load(open(outp))
                os.remove(outp)
                fo = [f for f in rep.get("findings", []) if f["class"] == "oracle" and not matches_known(pid, f, known)]
                search_log.append(f"tier={t2} seed={s2}: {rep.get('evaluations', 0)} cases, {len(fo)} oracle failures")
                for f in fo[:3]:
                    f["profile"] = prof
                    f["seed"] = s2
                    f["tier"] = t2
                    found.append(f)
        for f in found:
            path = write_replay(pid, n_replay, {"property": pid, "kind": "failing-input", "what": f["what"],
                                                "seed": f["seed"], "tier": f["tier"], "found_by": "search after a broken obligation/correspondence",
                                                "no_longer_checks": broken,
                                                "profile": f.get("profile"), "case": f["case"], "line_no": f.get("line_no")})
            violations.append(f"VIOLATION property={pid} replay={path}")
            n_replay += 1
            oracle.append(f)
    else:
        search_log = []
    if broken and not violations:
        # an obligation or the correspondence no longer checks, and the direct oracle found no failing
        # input anywhere in this run (including the neighbourhood search the harness performs)
        path = write_replay(pid, "unchecked", {
            "property": pid, "kind": "no-failing-input-found", "seed": seed, "tier": tier,
            "no_longer_checks": broken,
            "divergent_cases": [m["case"] for m in model[:5]],
            "searched": "direct oracle on every generated case of this run, then the same generators under three other seeds "
                        "and the thorough generator (time-boxed): " + "; ".join(search_log),
        })
        violations.append(f"VIOLATION property={pid} replay={path} no-failing-input-found")

    # ---- 5. evidence
    evals = sum(r.get("evaluations", 0) for r in reports)
    distinct = sum(r.get("distinct_nontrivial", 0) for r in reports)
    level = meta["category"]
    cov = {
        "obligations": lean["obligations"],
        "discharged": lean["discharged"],
        "checker_cmd": lean["checker_cmd"],
        "trusted_base": meta["trusted_base"],
        "theorems": lean["theorems"],
        "axioms": lean["axioms"],
        "lean_errors": lean["errors"],
        "lean_modules_in_closure": lean.get("lean_modules_in_closure", 0),
        "evaluations": max(evals, 1),
        "distinct_nontrivial": distinct,
        "rule": meta["rule"],
        "explanation": meta["explanation"],
        "samples": [s for r in reports for s in r.get("samples", [])][:8] or [{"note": "no samples"}],
        "traces_validated_against_impl": sum(r.get("model_lines", 0) for r in reports),
        "distribution": {r["profile"]: r.get("distribution", {}) for r in reports},
        "counters": {r["profile"]: r.get("counters", {}) for r in reports},
        "precedence_differences_tolerated": sum(r.get("precedence_diffs", 0) for r in reports),
        "oracle_failures": len(oracle),
        "model_disagreements": len(model),
        "known_findings_matched": sorted(seen_known),
        "unavailable_subchecks": sorted({u for r in reports for u in r.get("unavailable", [])} | set(notes)),
        "exhaustive": bool(meta.get("exhaustive", False)),
        "harness_notes": [n for r in reports for n in r.get("notes", [])],
        "repo_fingerprint": fp_start,
        "repo_changed_during_run": repo_fingerprint() != fp_start,
    }
    if lean["obligations"] == 0 or lean["discharged"] != lean["obligations"]:
        # a proof-level claim needs discharged == obligations; report honestly otherwise
        if level == "proof":
            level = "other"
            cov["explanation"] = "PROOF OBLIGATIONS NOT ALL DISCHARGED IN THIS RUN. " + cov["explanation"]
    ev = {
        "property_id": pid, "tier": tier, "seed": seed, "level": level, "coverage": cov,
        "assumptions": meta["assumptions"], "wall_s": round(time.time() - t0, 2),
        "violations": len(violations),
    }
    json.dump(ev, open(os.path.join(EVID, pid + ".json"), "w"), indent=1)

    for ln in known_lines:
        print(ln)
    for v in violations:
        print(v)
    print(f"[{pid}] tier={tier} seed={seed} theorems={lean['discharged']}/{lean['obligations']} "
          f"cases={evals} oracle_failures={len(oracle)} model_disagreements={len(model)} "
          f"wall={ev['wall_s']}s")
    if lean["errors"]:
        print("lean:", *lean["errors"][:5], sep="\n  ")
    for f in (oracle + model)[:5]:
        print("  -", f["class"], f["what"][:400])
    return 1 if violations else 0


if __name__ == "__main__":
    try:
        rc_main = main()
    finally:
        for b in PRIVATE_BINS:
            try:
                os.remove(b)
            except OSError:
                pass
    sys.exit(rc_main)
