#!/usr/bin/env python3
"""Writes MANIFEST.json from props_meta.py (single source of truth for per-property claims)."""
import json, os, subprocess
from props_meta import PROPS

VERIF = os.path.dirname(os.path.abspath(__file__))
all_ids = [json.loads(l)["id"] for l in open(os.path.join(VERIF, "properties.jsonl"))]
hook_commits = subprocess.run(["git", "-C", "/repo", "log", "--format=%H %s"], capture_output=True, text=True).stdout
hooks = [l.split()[0] for l in hook_commits.splitlines() if " verif-hooks:" in l]

checks = []
for pid in all_ids:
    if pid not in PROPS or PROPS[pid].get("unclaimed"):
        continue
    m = PROPS[pid]
    checks.append({
        "property_id": pid,
        "quick_cmd": f"./check.py {pid} --tier quick",
        "thorough_cmd": f"./check.py {pid} --tier thorough",
        "evidence_file": f"/verif/evidence/{pid}.json",
        "replay_cmd_template": f"./check.py {pid} --replay {{path}}",
        "engine": "lean4-model+correspondence",
        "level_claimed": {"category": m["category"], "text": m["explanation"], "design_ref": m.get("design_ref", "DESIGN.md §6")},
        "level_note": "; ".join(m["trusted_base"] + m["assumptions"]),
        "technique": m["technique"],
    })
na = []
for pid in all_ids:
    if pid not in PROPS or PROPS[pid].get("unclaimed"):
        reason = PROPS.get(pid, {}).get("unclaimed", "check not built yet in this session (planned: Lean model + correspondence, see DESIGN.md §6)")
        na.append({"property_id": pid, "reason": reason})
manifest = {
    "version": 1,
    "setup_cmd": "./setup.sh",
    "hooks": {
        "guard": "cargo feature verif-hooks",
        "enable": "harness Cargo.toml: reed-solomon-simd = { path = \"/repo\", features = [\"verif-hooks\"] }",
        "baseline_off_cmd": "cd /repo && cargo test --workspace --no-fail-fast --offline",
        "source_commits": hooks,
        "add_only": True,
    },
    "engines": [
        {"name": "lean4-model+correspondence", "path": "/verif/lean, /verif/harness, /verif/check.py",
         "serves_properties": [c["property_id"] for c in checks],
         "kind_free_text": "Lean 4 machine-checked theorems (lake project RSVerif, ~38 500 lines, no sorry, axioms propext / Classical.choice / "
                           "Quot.sound only) about (a) a hand-written executable model (exe rsmodel) and (b) Lean definitions REGENERATED from the "
                           "current Rust source on every run by the translators in /verif/translate (every function of src/ is read by one: "
                           "/verif/COVERAGE.md) and proved equal to the model; a Rust harness with a path dependency on /repo runs model and "
                           "implementation on the same op sequences (correspondence) and evaluates each property's direct oracle on the "
                           "implementation to find a failing input when an obligation or the correspondence breaks"},
    ],
    "checks": checks,
    "not_applicable": na,
    "notes": "See DESIGN.md (approach, trusted base, per-property theorems, 160 seeded changes and which checks catch them, limits). Genuine defects repaired by fix: commits are listed in known_findings.json.",
}
json.dump(manifest, open(os.path.join(VERIF, "MANIFEST.json"), "w"), indent=1)
print("claimed:", [c["property_id"] for c in checks])
